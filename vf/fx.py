"""Real cylc-flow objects built from fixture workflows (no scheduler).

Everything here runs concretely (harnesses call it at import time or before
they introduce symbolic values); collaborators that are not the subject of a
property are recording stubs (vf.api.Stub) - each harness lists them.
"""
import os
from functools import lru_cache

from vf.api import Stub, VERIF

from cylc.flow.config import WorkflowConfig
from cylc.flow.cycling.integer import IntegerPoint
from cylc.flow.flow_mgr import FlowMgr
from cylc.flow.id import Tokens
from cylc.flow.run_modes import RunMode
from cylc.flow.scheduler_cli import RunOptions
from cylc.flow.task_events_mgr import TaskEventsManager
from cylc.flow.task_pool import TaskPool
from cylc.flow.task_proxy import TaskProxy
from cylc.flow.task_state import TASK_STATUSES_ORDERED

STATUSES = list(TASK_STATUSES_ORDERED)
# ['waiting','expired','preparing','submit-failed','submitted','running',
#  'failed','succeeded']


@lru_cache(None)
def cfg(name, **opts):
    path = os.path.join(VERIF, 'fixtures', name, 'flow.cylc')
    return WorkflowConfig(name, path, RunOptions(**dict(opts)))


def tokens(name):
    return Tokens(f'~u/{name}')


def events_mgr(config, name='wf'):
    """Real TaskEventsManager with stub collaborators."""
    mgr = TaskEventsManager(
        name, Stub('proc_pool'), Stub('workflow_db_mgr'),
        Stub('broadcast_mgr', get_broadcast=None), Stub('xtrigger_mgr'),
        Stub('data_store_mgr'), False, set(), lambda: None)
    mgr.broadcast_mgr.__dict__['get_broadcast'] = lambda *a, **k: {}
    mgr.spawned = []
    mgr.spawn_func = lambda itask, output, *a, **k: mgr.spawned.append(
        (itask.identity, output))
    mgr.workflow_cfg = config.cfg
    mgr.setup_event_handlers = lambda *a, **k: None
    mgr._reset_job_timers = lambda *a, **k: None
    return mgr


class DaoStub(Stub):
    """In-memory stand-in for the private DAO's *queries* used by TaskPool.

    prev_instances[(name, point)] = [(submit_num, flow_wait, flow_nums, status)]
    task_outputs[(name, point)] = {outputs_json: flow_nums}
    task_prereqs[(point, name, flow_nums_str)] = rows
    The SQL itself is trusted (not modelled).
    """

    def __init__(self):
        super().__init__('pri_dao')
        self.__dict__.update(prev_instances={}, task_outputs={},
                             task_prereqs={}, tasks_to_hold=[],
                             latest_flow_nums=None)

    def select_prev_instances(self, name, point):
        return list(self.prev_instances.get((name, str(point)), []))

    def select_task_outputs(self, name, point):
        return dict(self.task_outputs.get((name, str(point)), {}))

    def select_task_prerequisites(self, cycle, name, flow_nums):
        return list(self.task_prereqs.get((str(cycle), name, flow_nums), []))

    def select_tasks_to_hold(self):
        return list(self.tasks_to_hold)

    def select_latest_flow_nums(self):
        return self.latest_flow_nums


def xtrigger_mgr(name='wf', db=None, ds=None, proc_pool=None):
    """Real XtriggerManager on a scheduler stand-in with stub collaborators."""
    from types import SimpleNamespace
    from cylc.flow.xtrigger_mgr import XtriggerManager
    schd = SimpleNamespace(
        workflow=name, owner='u',
        proc_pool=proc_pool or Stub('proc_pool'),
        workflow_db_mgr=db or Stub('workflow_db_mgr'),
        broadcast_mgr=Stub('broadcast_mgr'),
        data_store_mgr=ds or Stub('data_store_mgr'),
    )
    return XtriggerManager(schd, '/nonexistent/run', '/nonexistent/share')


def pool(config, name='wf', real_events=False):
    """Real TaskPool with stub DB / data store / xtrigger managers."""
    db = Stub('workflow_db_mgr')
    db.__dict__['pri_dao'] = DaoStub()
    tem = events_mgr(config, name) if real_events else Stub('task_events_mgr')
    ds = Stub('data_store_mgr')
    ds.__dict__['xtrigger_tasks'] = {}
    xm = xtrigger_mgr(name, db, ds)
    fm = FlowMgr(db)
    p = TaskPool(tokens(name), config, db, tem, xm, ds, fm)
    if real_events:
        tem.xtrigger_mgr = xm
        tem.data_store_mgr = ds
        tem.workflow_db_mgr = db
    if real_events:
        tem.spawned = []
    return p


def itask(config, tname, point, status='waiting', flows=(1,), name='wf',
          **kw):
    """Real TaskProxy of fixture task tname at integer point."""
    pt = point if isinstance(point, IntegerPoint) else IntegerPoint(str(point))
    it = TaskProxy(tokens(name), config.get_taskdef(tname), pt, set(flows),
                   status=status, **kw)
    it.run_mode = RunMode.LIVE
    return it


class XtrigStub(Stub):
    """xtrigger manager stand-in sufficient for retry-xtrigger creation."""

    def __init__(self):
        super().__init__('xtrigger_mgr')
        outer = self

        class _Coll:
            def add_trig(self, label, ctx, *a, **k):
                outer.calls.append(('add_trig', (label,), {}))
        self.__dict__['xtriggers'] = _Coll()

    def get_xtrig_ctx(self, itask, label):
        class _Ctx:
            def get_signature(self_inner):
                return f'wall_clock({label})'
        return _Ctx()


def events_mgr2(config, name='wf'):
    """events_mgr with the retry-capable xtrigger stub and a dict-like
    data store attribute for xtrigger_tasks."""
    mgr = events_mgr(config, name)
    mgr.xtrigger_mgr = XtrigStub()
    mgr.data_store_mgr.__dict__['xtrigger_tasks'] = {}
    return mgr


def history_db(pool):
    """Make the pool's stub DB manager remember task states and outputs the
    way the task_states / task_outputs tables do, so that spawn_task sees the
    history of instances that already ran (model of the tables; the SQL is
    outside).  Returns the DaoStub."""
    import json
    db = pool.workflow_db_mgr
    dao = db.pri_dao

    def record(itask, *a, **k):
        key = (itask.tdef.name, str(itask.point))
        dao.prev_instances[key] = [(
            itask.submit_num, itask.flow_wait, set(itask.flow_nums),
            itask.state.status)]
        outs = {
            itask.state.outputs._message_to_trigger[m]: m
            for m, done in itask.state.outputs._completed.items() if done}
        dao.task_outputs[key] = {json.dumps(outs): set(itask.flow_nums)}
    for name in ('put_update_task_state', 'put_update_task_outputs',
                 'put_insert_task_states', 'put_insert_task_outputs',
                 'put_update_task_flow_wait'):
        db.__dict__[name] = record
    return dao

"""Real cylc-flow objects built from fixture workflows (no scheduler).

Everything here runs concretely (harnesses call it at import time or before
they introduce symbolic values); collaborators that are not the subject of a
property are recording stubs (vf.api.Stub) - each harness lists them.
"""
import os
from functools import lru_cache

from vf.api import Stub, VERIF

from cylc.flow.config import WorkflowConfig
from cylc.flow.cycling.integer import IntegerPoint
from cylc.flow.flow_mgr import FlowMgr
from cylc.flow.id import Tokens
from cylc.flow.run_modes import RunMode
from cylc.flow.scheduler_cli import RunOptions
from cylc.flow.task_events_mgr import TaskEventsManager
from cylc.flow.task_pool import TaskPool
from cylc.flow.task_proxy import TaskProxy
from cylc.flow.task_state import TASK_STATUSES_ORDERED

STATUSES = list(TASK_STATUSES_ORDERED)
# ['waiting','expired','preparing','submit-failed','submitted','running',
#  'failed','succeeded']


@lru_cache(None)
def cfg(name, **opts):
    path = os.path.join(VERIF, 'fixtures', name, 'flow.cylc')
    return WorkflowConfig(name, path, RunOptions(**dict(opts)))


def tokens(name):
    return Tokens(f'~u/{name}')


def events_mgr(config, name='wf'):
    """Real TaskEventsManager with stub collaborators."""
    mgr = TaskEventsManager(
        name, Stub('proc_pool'), Stub('workflow_db_mgr'),
        Stub('broadcast_mgr', get_broadcast=None), Stub('xtrigger_mgr'),
        Stub('data_store_mgr'), False, set(), lambda: None)
    mgr.broadcast_mgr.__dict__['get_broadcast'] = lambda *a, **k: {}
    mgr.spawned = []
    mgr.spawn_func = lambda itask, output, *a, **k: mgr.spawned.append(
        (itask.identity, output))
    mgr.workflow_cfg = config.cfg
    mgr.setup_event_handlers = lambda *a, **k: None
    mgr._reset_job_timers = lambda *a, **k: None
    return mgr


def pool(config, name='wf', real_events=False):
    """Real TaskPool with stub DB / data store / xtrigger managers."""
    db = Stub('workflow_db_mgr')
    db.__dict__['pri_dao'] = Stub('pri_dao')
    tem = events_mgr(config, name) if real_events else Stub('task_events_mgr')
    xm = Stub('xtrigger_mgr')
    fm = FlowMgr(db)
    p = TaskPool(tokens(name), config, db, tem, xm, Stub('data_store_mgr'),
                 fm)
    if real_events:
        tem.spawned = []
    return p


def itask(config, tname, point, status='waiting', flows=(1,), name='wf',
          **kw):
    """Real TaskProxy of fixture task tname at integer point."""
    pt = point if isinstance(point, IntegerPoint) else IntegerPoint(str(point))
    it = TaskProxy(tokens(name), config.get_taskdef(tname), pt, set(flows),
                   status=status, **kw)
    it.run_mode = RunMode.LIVE
    return it


class XtrigStub(Stub):
    """xtrigger manager stand-in sufficient for retry-xtrigger creation."""

    def __init__(self):
        super().__init__('xtrigger_mgr')
        outer = self

        class _Coll:
            def add_trig(self, label, ctx, *a, **k):
                outer.calls.append(('add_trig', (label,), {}))
        self.__dict__['xtriggers'] = _Coll()

    def get_xtrig_ctx(self, itask, label):
        class _Ctx:
            def get_signature(self_inner):
                return f'wall_clock({label})'
        return _Ctx()


def events_mgr2(config, name='wf'):
    """events_mgr with the retry-capable xtrigger stub and a dict-like
    data store attribute for xtrigger_tasks."""
    mgr = events_mgr(config, name)
    mgr.xtrigger_mgr = XtrigStub()
    mgr.data_store_mgr.__dict__['xtrigger_tasks'] = {}
    return mgr

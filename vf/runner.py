"""Obligation runner: decides one property with the solver-backed workers.

    python -m vf.runner <PID> [--tier quick|thorough] [--only NAME] [--jobs N]
    python -m vf.runner --replay <file>

Exit 0: nothing violated on everything explored (INCONCLUSIVE lines possible).
Exit 1: `VIOLATION property=<id> replay=<path>` for a counterexample that
        reproduced on the real code and is not a listed known finding.
Exit 3: harness error (counterexample that does not reproduce, broken model,
        failed validation, no obligation discharged).
"""
import argparse
import concurrent.futures as cf
import importlib
import json
import os
import subprocess
import sys
import time

VERIF = os.path.dirname(os.path.dirname(os.path.abspath(__file__)))
PY = os.path.join(VERIF, '.venv', 'bin', 'python')
EVID = os.path.join(VERIF, 'evidence')
REPLAYS = os.path.join(EVID, 'replays')


def sh(cmd, timeout):
    """Run a worker; return (stdout, stderr, rc) with rc=None on timeout."""
    try:
        p = subprocess.run(
            cmd, cwd=VERIF, capture_output=True, text=True, timeout=timeout,
            env=dict(os.environ, PYTHONHASHSEED='0', PYTHONPATH=os.pathsep.join(
                [VERIF] + ([os.environ['VERIF_REPO']]
                           if os.environ.get('VERIF_REPO') else []))))
        return p.stdout, p.stderr, p.returncode
    except subprocess.TimeoutExpired as e:
        return (e.stdout or ''), (e.stderr or ''), None


def parse_result(out):
    if isinstance(out, bytes):
        out = out.decode(errors='replace')
    for line in reversed(out.splitlines()):
        if line.startswith('RESULT '):
            return json.loads(line[7:])
    return None


def run_ob(pid, ob, mode):
    t0 = time.time()
    cmd = [PY, '-m', 'vf.worker', f'props.{pid}', ob.fn, str(ob.timeout),
           json.dumps(ob.slice), mode if ob.kind == 'chx' else 'smt']
    wall = ob.timeout * 1.6 + 60 if mode != 'twin' else 120
    out, err, rc = sh(cmd, wall)
    res = parse_result(out)
    if res is None:
        if isinstance(err, bytes):
            err = err.decode(errors='replace')
        res = {'status': 'timeout' if rc is None else 'harness_error',
               'message': (err or '')[-1500:]}
    res['ob'] = ob.name
    res['mode'] = mode
    res['ob_wall_s'] = round(time.time() - t0, 2)
    return res


def do_replay(spec, path):
    os.makedirs(os.path.dirname(path), exist_ok=True)
    with open(path, 'w') as f:
        json.dump(spec, f, indent=1, default=repr)
    out, err, rc = sh([PY, '-m', 'vf.replay', path], 600)
    for line in out.splitlines():
        if line.startswith('REPLAY '):
            holds = line.split()[1] == 'holds'
            return holds, line
    return None, (err or '')[-1500:]


def load_findings(pid):
    with open(os.path.join(VERIF, 'known_findings.json')) as f:
        return [e for e in json.load(f)['findings'] if e['property'] == pid]


def in_known_region(pid, modname, spec):
    """Is the counterexample inside a listed (status=known) finding?"""
    mod = importlib.import_module(modname)
    import inspect
    fn = getattr(mod, spec['fn'])
    try:
        bound = inspect.signature(fn).bind(
            *spec.get('args', []), **spec.get('kwargs', {}))
        bound.apply_defaults()
    except TypeError:
        return None
    for e in load_findings(pid):
        if e.get('status') != 'known' or e.get('fn') != spec['fn']:
            continue
        try:
            if eval(e['region'], {'__builtins__': {}},
                    dict(bound.arguments)):
                return e
        except Exception:
            continue
    return None


def main(argv=None):
    ap = argparse.ArgumentParser()
    ap.add_argument('pid', nargs='?')
    ap.add_argument('--tier', default=os.environ.get('VERIF_TIER', 'quick'))
    ap.add_argument('--only')
    ap.add_argument('--jobs', type=int,
                    default=int(os.environ.get('VERIF_JOBS', '16')))
    ap.add_argument('--replay')
    ap.add_argument('--no-evidence', action='store_true')
    a = ap.parse_args(argv)
    sys.path.insert(0, VERIF)

    if a.replay:
        with open(a.replay) as f:
            spec = json.load(f)
        holds, line = do_replay(spec, a.replay)
        print(line)
        if holds is False:
            print(f"VIOLATION property={spec['property']} replay={a.replay}")
            return 1
        return 0 if holds else 3

    pid = a.pid
    tier = a.tier if a.tier in ('quick', 'thorough') else 'quick'
    seed = int(os.environ.get('VERIF_SEED', '0') or 0)
    t0 = time.time()
    modname = f'props.{pid}'
    mod = importlib.import_module(modname)
    meta = getattr(mod, 'META', {})
    obs = mod.OBLIGATIONS(tier)
    if a.only:
        obs = [o for o in obs if a.only in o.name]
    harness_errors = []
    violations = []
    lines = []

    def say(s):
        print(s, flush=True)
        lines.append(s)

    # --- concrete validation of harness oracles against the real functions
    validated = 0
    if hasattr(mod, 'VALIDATE'):
        out, err, rc = sh([PY, '-c', (
            'import sys, json; sys.path.insert(0, %r); import zmq; '
            'import importlib; m = importlib.import_module(%r); '
            'print("VALIDATED", int(m.VALIDATE()))' % (VERIF, modname))], 900)
        got = [ln for ln in out.splitlines() if ln.startswith('VALIDATED ')]
        if rc != 0 or not got:
            say(f'HARNESS-ERROR property={pid} validation failed: '
                f'{(err or out)[-800:]}')
            harness_errors.append('validation')
        else:
            validated = int(got[-1].split()[1])

    # --- known findings: still present?
    for e in load_findings(pid):
        if e.get('status') != 'known':
            continue
        spec = dict(property=pid, module=modname, fn=e['fn'],
                    args=e['example'].get('args', []),
                    kwargs=e['example'].get('kwargs', {}),
                    slice=e['example'].get('slice', {}))
        path = os.path.join(REPLAYS, f"{pid}_known_{e['id']}.json")
        holds, line = do_replay(spec, path)
        if holds is False:
            say(f"KNOWN-FINDING: property={pid} {e['what']}")
        elif holds is True:
            say(f"NOTE known finding {e['id']} no longer reproduces "
                f"(example now satisfies the property)")
        else:
            say(f"HARNESS-ERROR property={pid} known-finding replay broke: "
                f"{line}")
            harness_errors.append('known-replay')

    # --- obligations
    jobs = []
    for ob in obs:
        jobs.append((ob, 'check'))
        if ob.kind == 'chx' and ob.twin and not ob.hunt:
            jobs.append((ob, 'twin'))
    results = {}
    with cf.ThreadPoolExecutor(max_workers=a.jobs) as ex:
        futs = {ex.submit(run_ob, pid, ob, mode): (ob, mode)
                for ob, mode in jobs}
        for fut in cf.as_completed(futs):
            ob, mode = futs[fut]
            results[(ob.name, mode)] = fut.result()

    n_ob = n_dis = n_inc = n_twin = 0
    paths = checks = 0
    solver_s = 0.0
    samples = []
    per_ob = []
    for ob in obs:
        r = results[(ob.name, 'check')]
        tw = results.get((ob.name, 'twin'))
        paths += int(r.get('confirmed_paths') or 0) + int(r.get('paths_smt') or 0)
        checks += int(r.get('solver_checks') or 0)
        solver_s += float(r.get('solver_s') or 0)
        st = r.get('status')
        entry = {'obligation': ob.name, 'fn': ob.fn, 'kind': ob.kind,
                 'slice': ob.slice, 'status': st, 'hunt': ob.hunt,
                 'paths': r.get('confirmed_paths'),
                 'solver_checks': r.get('solver_checks'),
                 'solver_s': r.get('solver_s'), 'cpu_s': r.get('cpu_s'),
                 'pre': r.get('pre'), 'queries': r.get('queries')}
        if not ob.hunt:
            n_ob += 1
        if tw is not None:
            checks += int(tw.get('solver_checks') or 0)
            if tw.get('status') == 'refuted':
                n_twin += 1
                entry['witness'] = (tw.get('call') or {}).get('src')
                if len(samples) < 8 and entry['witness']:
                    samples.append({'obligation': ob.name,
                                    'reachable_input': entry['witness']})
            else:
                entry['twin'] = tw.get('status')
        if st in ('confirmed', 'unsat'):
            if tw is not None and tw.get('status') != 'refuted':
                entry['status'] = 'vacuous'
                say(f'INCONCLUSIVE obligation={pid}.{ob.name} vacuous: '
                    f'reachability twin {tw.get("status")}')
                if not ob.hunt:
                    n_inc += 1
            elif not ob.hunt:
                n_dis += 1
        elif st in ('refuted', 'sat'):
            call = r.get('call') or {}
            if 'args' not in call:
                say(f'HARNESS-ERROR obligation={pid}.{ob.name} '
                    f'unparsed counterexample: {r.get("message")}')
                harness_errors.append(ob.name)
                per_ob.append(entry)
                continue
            spec = dict(property=pid, module=modname,
                        fn=call.get('fn', ob.fn), args=call['args'],
                        kwargs=call.get('kwargs', {}), slice=ob.slice,
                        obligation=ob.name, solver_message=r.get('message'))
            path = os.path.join(
                REPLAYS, f'{pid}_{ob.name}.json'.replace('/', '_'))
            holds, line = do_replay(spec, path)
            entry['counterexample'] = call.get('src') or call
            entry['replay'] = line
            samples.append({'obligation': ob.name,
                            'counterexample': entry['counterexample'],
                            'replay': line[:300]})
            if holds is False:
                known = in_known_region(pid, modname, spec)
                if known:
                    # should have been excluded by the pre-condition
                    say(f"KNOWN-FINDING: property={pid} {known['what']} "
                        f"(obligation {ob.name} does not exclude its region)")
                    if not ob.hunt:
                        n_inc += 1
                else:
                    violations.append(path)
                    say(f'VIOLATION property={pid} replay={path}')
                    say(f'  obligation={ob.name} {r.get("message")}')
            else:
                say(f'HARNESS-ERROR obligation={pid}.{ob.name} counterexample '
                    f'did not reproduce on the real code: {r.get("message")} '
                    f'/ {line[:300]}')
                harness_errors.append(ob.name)
        elif st in ('harness_error', 'syntax', 'pre_unsat', 'other'):
            say(f'HARNESS-ERROR obligation={pid}.{ob.name} {st}: '
                f'{str(r.get("message"))[-600:]}')
            harness_errors.append(ob.name)
        else:  # unknown / timeout
            if not ob.hunt:
                n_inc += 1
                say(f'INCONCLUSIVE obligation={pid}.{ob.name} {st} '
                    f'after {r.get("cpu_s", r.get("ob_wall_s"))}s')
        per_ob.append(entry)

    wall = round(time.time() - t0, 2)
    level = meta.get('level', 'model_checking')
    cov = {
        'states': max(paths, 1) if n_dis else paths,
        'transitions': max(checks, 1) if n_dis else checks,
        'traces_validated_against_impl': validated + len(
            [s for s in samples if 'replay' in s]),
        'samples': samples or [{'obligation': o.name, 'slice': o.slice}
                               for o in obs[:3]],
        'obligations': n_ob,
        'discharged': n_dis,
        'inconclusive': n_inc,
        'vacuity_twins_refuted': n_twin,
        'queries': checks,
        'solver_time_s': round(solver_s, 2),
        'functions_encoded': meta.get('functions', []),
        'bounds': meta.get('bounds', []),
        'stubs': meta.get('stubs', []),
        'outside_claim': meta.get('outside', []),
        'engine': 'CrossHair 0.0.110 (library mode) + z3 %s; direct z3 '
                  'queries for kind=smt' % _z3v(),
        'per_obligation': per_ob,
        'exhaustive': False,
        'explanation': 'states = execution paths on which the solver '
                       'confirmed the assertion; transitions = z3 '
                       'satisfiability checks issued while exploring them',
    }
    if level == 'translation_validation':
        cov['programs'] = max(int(sum(
            int(r.get('programs') or 0)
            for (n, m), r in results.items() if m == 'check')), 1)
        cov['disagreements_checked'] = len(
            [s for s in samples if 'replay' in s])
    evidence = {
        'property_id': pid, 'tier': tier, 'seed': seed, 'level': level,
        'coverage': cov,
        'assumptions': meta.get('assumptions', []),
        'wall_s': wall, 'violations': len(violations),
        'harness_errors': harness_errors,
        'log': lines,
    }
    if not a.no_evidence and not a.only:
        os.makedirs(EVID, exist_ok=True)
        with open(os.path.join(EVID, f'{pid}.json'), 'w') as f:
            json.dump(evidence, f, indent=1, default=repr)
    say(f'SUMMARY property={pid} tier={tier} obligations={n_ob} '
        f'discharged={n_dis} inconclusive={n_inc} twins_refuted={n_twin} '
        f'paths={paths} solver_checks={checks} violations={len(violations)} '
        f'harness_errors={len(harness_errors)} wall={wall}s')
    if violations:
        return 1
    if harness_errors or (n_ob and not n_dis):
        return 3
    return 0


def _z3v():
    try:
        import z3
        return z3.get_version_string()
    except Exception:
        return '?'


if __name__ == '__main__':
    sys.exit(main())

"""CrossHair environment patches needed to execute cylc-flow symbolically.

Both patches are models of *Python builtins* (the environment), not of cylc code:

1. ``int(x)``: when ``type(x).__int__`` is Python code (cylc's IntegerPoint /
   IntegerInterval store their value as a string and implement ``__int__``)
   call it under tracing so the result stays symbolic; symbolic strings with a
   leading sign are parsed digit-wise.  Otherwise identical to CrossHair's own
   ``_int``.
2. ``format(x, spec)``: for plain (non-symbolic) objects of cylc classes call
   ``type(x).__format__`` directly instead of deep-copying the object (cylc's
   ``Tokens`` is immutable and cannot be deep-copied; every log f-string formats
   a task proxy).

3. ``hash(x)``: CrossHair's model without its short-circuitable contract (see
   ``_hash2``).

``selftest()`` checks the patched builtins against the native ones on concrete
values; it is run by every worker before analysis.
"""
import builtins

from crosshair.core import _PATCH_REGISTRATIONS, realize, deep_realize
from crosshair.core_and_libs import NoTracing, ResumedTracing
from crosshair.libimpl import builtinslib as B

_MISSING = B._MISSING
SymbolicInt = B.SymbolicInt
AnySymbolicStr = B.AnySymbolicStr
CrossHairValue = B.CrossHairValue
_ORD_OF_ZERO = ord("0")


def _int2(val=0, base=_MISSING):
    with NoTracing():
        t = type(val)
        if isinstance(val, SymbolicInt):
            if base is not _MISSING:
                raise TypeError(
                    "int() can't convert non-string with explicit base")
            return val
        if isinstance(val, AnySymbolicStr):
            with ResumedTracing():
                if base is _MISSING:
                    base = 10
                if any([base < 2, base > 10, not val]):
                    return int(realize(val), base=realize(base))
                neg = False
                body = val
                if val[0] == '-':
                    neg = True
                    body = val[1:]
                elif val[0] == '+':
                    body = val[1:]
                if not body:
                    return int(realize(val))
                ret = 0
                for ch in body:
                    ch_num = ord(ch) - _ORD_OF_ZERO
                    if any((ch_num < 0, ch_num >= base)):
                        return int(realize(val))
                    else:
                        ret = (ret * base) + ch_num
                return -ret if neg else ret
        elif isinstance(val, CrossHairValue):
            val = deep_realize(val)
            base = deep_realize(base)
        elif (
            base is _MISSING
            and not isinstance(val, (int, float, str, bytes, bytearray))
            and hasattr(t, '__int__')
            and hasattr(t.__int__, '__code__')
        ):
            with ResumedTracing():
                return t.__int__(val)
        return int(val) if base is _MISSING else int(val, base=base)


_orig_format = B._format


def _format2(obj, format_spec=""):
    with NoTracing():
        plain = (
            not isinstance(obj, CrossHairValue)
            and type(obj).__module__.startswith('cylc.')
        )
    if plain:
        return type(obj).__format__(obj, format_spec)
    return _orig_format(obj, format_spec)


def _hash2(obj):
    # CrossHair's own hash() model carries a contract, so calls may be
    # short-circuited to an unconstrained symbolic int; a Python-level
    # __hash__ (cylc's PointBase: hash(self.value)) then hands that symbolic
    # to C code (dict/set insertion) which rejects it.  Same semantics, no
    # contract: always compute the hash.
    with NoTracing():
        if not B.is_hashable(obj):
            return hash(obj)  # error in the native way
    return B.invoke_dunder(obj, "__hash__")


def install():
    _PATCH_REGISTRATIONS[builtins.int] = _int2
    _PATCH_REGISTRATIONS[builtins.format] = _format2
    _PATCH_REGISTRATIONS[builtins.hash] = _hash2


def selftest():
    """Differential test of the patched builtins on concrete values."""
    from cylc.flow.cycling.integer import IntegerPoint, IntegerInterval
    n = 0
    for v in (0, 7, -3, '12', '-12', '+5', '007', 3.9, True, b'4'):
        assert _int2(v) == int(v), v
        n += 1
    for v, b in (('101', 2), ('-77', 8), ('z', 36)):
        assert _int2(v, b) == int(v, b)
        n += 1
    for bad in ('', '-', 'x1', None):
        try:
            int(bad)
        except Exception as e1:
            try:
                _int2(bad)
            except Exception as e2:
                assert type(e1) is type(e2), (bad, e1, e2)
                n += 1
            else:
                raise AssertionError(bad)
    for v in ('2', 7, (1, 'a'), IntegerPoint('3'), None, 2.5):
        assert _hash2(v) == hash(v), v
        n += 1
    assert _int2(IntegerPoint('-4')) == -4
    assert _int2(IntegerInterval('P3')) == 3
    p = IntegerPoint('5')

    def beh(f, *a):
        try:
            return ('ok', f(*a))
        except Exception as exc:
            return ('exc', type(exc).__name__)
    for obj, spec in ((p, ''), (p, '>3'), (12, '03d'), ('s', '>4')):
        assert beh(_format2, obj, spec) == beh(format, obj, spec), (obj, spec)
        n += 1
    return n + 2

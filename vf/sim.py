"""A scheduler stand-in that plays the main loop over REAL cylc-flow objects.

Real: TaskPool, TaskEventsManager.process_message, FlowMgr, XtriggerManager,
WorkflowDatabaseManager + CylcWorkflowDAO on a private sqlite file, and
Scheduler.release_tasks_to_run / check_auto_shutdown called unbound on the
stand-in.  Played by the harness (stated as stubs in every property that
uses this module): job preparation / submission (the two state changes and
DB rows task_job_mgr makes, without subprocesses), job messages, the data
store, and time.

The order of calls in `loop()` mirrors Scheduler._main_loop.
"""
import logging
import os
import types
from types import SimpleNamespace as NS

from vf.api import Stub
from vf import fx

from cylc.flow.flow_mgr import FlowMgr
from cylc.flow.scheduler import Scheduler
from cylc.flow.task_events_mgr import TaskEventsManager
from cylc.flow.task_job_mgr import TaskJobManager
from cylc.flow.task_pool import TaskPool
from cylc.flow.workflow_db_mgr import WorkflowDatabaseManager

ET = '2020-01-01T00:00:00Z'
LIVE = ('preparing', 'submitted', 'running')


class Sim:
    def __init__(self, cfg, dirpath, restart=False, name='wf', real_ds=False):
        import cylc.flow.task_action_timer as tat
        tat.time = lambda: 1000.0
        self.cfg = cfg
        path = os.path.join(dirpath, 'db')
        db = WorkflowDatabaseManager(dirpath, dirpath)
        db.pri_path, db.pub_path = path, path + '.pub'
        db.on_workflow_start(restart)
        self.db = db
        bm = Stub('broadcast_mgr')
        bm.__dict__['get_broadcast'] = lambda *a, **k: {}
        bm.__dict__['broadcasts'] = {}
        self.schd = NS(
            workflow=name, owner='u', host='localhost',
            server=NS(port=1, pub_port=2), workflow_log_dir=dirpath,
            config=cfg, workflow_db_mgr=db, broadcast_mgr=bm,
            is_paused=False, stop_mode=None, auto_restart_time=None,
            auto_restart_mode=None, reload_pending=False,
            stop_clock_time=None,
            should_auto_restart_now=lambda: False,
            is_restart_timeout_wait=False, is_stalled=False, timers={},
            EVENT_STALL=Scheduler.EVENT_STALL,
            EVENT_STALL_TIMEOUT=Scheduler.EVENT_STALL_TIMEOUT,
            update_data_store=lambda: None,
            run_event_handlers=lambda *a, **k: None,
            kill_tasks=lambda ts, warn=True: self.killed.extend(ts),
            start_job_submission=self._start_job_submission,
        )
        if real_ds:
            from cylc.flow.data_store_mgr import DataStoreMgr
            ds = DataStoreMgr(self.schd)
        else:
            ds = Stub('data_store_mgr')
            ds.__dict__['xtrigger_tasks'] = {}
        self.ds = ds
        self.real_ds = real_ds
        xm = fx.xtrigger_mgr(name, db, ds)
        tem = TaskEventsManager(
            name, Stub('proc_pool'), db, bm, xm, ds, False, set(),
            lambda: None)
        tem.workflow_cfg = cfg.cfg
        tem.setup_event_handlers = lambda *a, **k: None
        tem._reset_job_timers = lambda *a, **k: None
        self.tem = tem
        self.pool = TaskPool(fx.tokens(name), cfg, db, tem, xm, ds,
                             FlowMgr(db))
        tem.spawn_func = self.pool.spawn_on_output
        self.schd.pool = self.pool
        self.schd.data_store_mgr = ds
        self.schd.task_events_mgr = tem
        self.schd.xtrigger_mgr = xm
        if real_ds:
            ds.initiate_data_model()
        self.killed = []
        self.submitted = []      # (name, point, submit_num, flows) per job
        self.prepared = []       # (name, point, submit_num) per preparation
        self.schd.check_workflow_stalled = types.MethodType(
            Scheduler.check_workflow_stalled, self.schd)
        self.auto_submit = True  # jobs reach "submitted" in the same loop
        self.on_submit = None    # callback(itask) -> False vetoes (a check)
        self.on_publish = None   # callback(): deltas are pending
        self.submit_fail = set()  # identities whose next submission fails

    # ------------------------------------------------------------ start-up
    def cold_start(self):
        self.pool.load_from_point()
        self.flush()

    def restart(self):
        """Scheduler._load_pool_from_db (the parts that concern the pool)."""
        dao = self.db.pri_dao
        dao.select_task_pool_for_restart(
            self.pool.load_db_task_pool_for_restart)
        dao.select_task_action_timers(self.pool.load_db_task_action_timers)
        dao.select_abs_outputs_for_restart(
            self.pool.load_abs_outputs_for_restart)
        self.pool.load_db_tasks_to_hold()
        self.pool.update_flow_mgr()

    # ------------------------------------------------------------ main loop
    def flush(self):
        """update_data_structure + process_workflow_db_queue."""
        if self.real_ds:
            # Scheduler.update_data_structure: publish what is pending,
            # update, publish again
            self.publish()
            self.ds.update_data_structure()
            self.publish()
        self.db.put_task_pool(self.pool)
        self.db.process_queued_ops()

    def publish(self):
        """Scheduler._publish_deltas (the subscriber is the harness)."""
        if self.on_publish is not None and self.ds.publish_pending:
            self.on_publish()

    def _start_job_submission(self, itasks):
        for t in sorted(itasks, key=lambda t: t.identity):
            self.prepare(t)
            if t.identity in self.submit_fail:
                # job preparation / submission fails (bad script, no host):
                # TaskJobManager._prep_submit_task_job_error
                self.submit_fail.discard(t.identity)
                self.msg(t, self.tem.EVENT_SUBMIT_FAILED, logging.CRITICAL,
                         internal=True)
            elif self.auto_submit:
                self.submit(t)
        return True

    def prepare(self, t):
        """TaskJobManager.prep_submit_task_jobs (state side)."""
        if t.state.status != 'preparing':
            t.submit_num += 1
            t.state_reset('preparing')
            self.ds.delta_task_state(t)
        t.waiting_on_job_prep = False
        TaskJobManager._set_retry_timers(t)
        self.prepared.append((t.tdef.name, int(t.point), t.submit_num))

    def submit(self, t):
        """TaskJobManager._submit_task_job_callback (success)."""
        if self.on_submit is not None:
            self.on_submit(t)
        self.submitted.append(
            (t.tdef.name, int(t.point), t.submit_num, frozenset(t.flow_nums)))
        self.db.put_insert_task_jobs(t, {
            'flow_nums': '[1]', 'is_manual_submit': t.is_manual_submit,
            'try_num': t.get_try_num(), 'time_submit': ET,
            'platform_name': 'localhost', 'job_runner_name': 'background',
            'submit_status': 0})
        self.msg(t, 'submitted', internal=True)

    def msg(self, t, m, sev=logging.INFO, internal=False, submit_num=None):
        return self.tem.process_message(
            t, sev, m, ET,
            self.tem.FLAG_INTERNAL if internal else self.tem.FLAG_RECEIVED,
            submit_num=t.submit_num if submit_num is None else submit_num)

    def loop(self):
        """One iteration of Scheduler._main_loop (pool-relevant part)."""
        pool = self.pool
        pool.compute_runahead()
        pool.release_runahead_tasks()
        for t in pool.get_tasks():
            if (t.state.status != 'waiting' or t.state.is_queued
                    or t.state.is_runahead):
                continue
            for k in list(t.state.xtriggers):
                t.state.xtriggers[k] = True      # retry delays elapsed
            pool.spawn_psx_task(t) if hasattr(pool, 'spawn_psx_task') else 0
            pool.queue_if_ready(t)
        Scheduler.release_tasks_to_run(self.schd)
        self.flush()

    def active(self):
        return sorted((t for t in self.pool.get_tasks()
                       if t.state.status in ('submitted', 'running')),
                      key=lambda t: t.identity)

    def finish(self, t, outputs=(), fail=False):
        """A job runs to the end: started, custom outputs, succeeded/failed."""
        self.msg(t, 'started')
        for o in outputs:
            self.msg(t, o)
        if fail:
            self.msg(t, 'failed', logging.CRITICAL)
        else:
            self.msg(t, 'succeeded')

    def close(self):
        for dao in (self.db.pri_dao, self.db.pub_dao):
            try:
                if dao is not None:
                    dao.close()
            except Exception:
                pass

    def can_shutdown(self):
        return Scheduler.check_auto_shutdown(self.schd) is True

    def ident_status(self):
        return {t.identity: t.state.status for t in self.pool.get_tasks()}

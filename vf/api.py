"""Helpers shared by harness modules (imports nothing from CrossHair)."""
from dataclasses import dataclass, field
import json
import logging
import os
from typing import Any, Dict, List, Optional

VERIF = os.path.dirname(os.path.dirname(os.path.abspath(__file__)))
REPO = os.environ.get('VERIF_REPO', '/repo')

logging.disable(logging.CRITICAL)

#: slice of finite-choice variables fixed for the current obligation
SLICE: Dict[str, Any] = {}


def sl(**kw) -> bool:
    """Pre-condition helper: the named variables equal their slice value."""
    for name, val in kw.items():
        if name in SLICE and not (val == SLICE[name]):
            return False
    return True


_KF = None


def _known():
    global _KF
    if _KF is None:
        with open(os.path.join(VERIF, 'known_findings.json')) as f:
            _KF = [e for e in json.load(f)['findings']
                   if e.get('status') == 'known']
    return _KF


def kf(harness: str, **args) -> bool:
    """True if args lie in the region of a listed known finding of harness.

    Used as ``pre: not kf('C16.next', a=a, ...)`` so that a recorded defect
    does not mask other violations of the same harness.  Regions are Python
    expressions over the harness arguments (known_findings.json).
    """
    for e in _known():
        if harness in (e.get('fn'), f"{e.get('property')}.{e.get('fn')}"):
            if eval(e['region'], {'__builtins__': {}}, dict(args)):
                return True
    return False


class Stub:
    """Recording no-op collaborator."""

    def __init__(self, name='stub', **fixed):
        self.__dict__['_name'] = name
        self.__dict__['calls'] = []
        self.__dict__.update(fixed)

    def __getattr__(self, attr):
        if attr.startswith('__'):
            raise AttributeError(attr)

        def f(*a, **k):
            self.calls.append((attr, a, k))
            return None
        return f

    def called(self, attr):
        return [c for c in self.calls if c[0] == attr]


@dataclass
class Ob:
    """One proof obligation."""
    name: str                      # unique within the property
    fn: str                        # function name in the property module
    kind: str = 'chx'              # chx | smt
    slice: Dict[str, Any] = field(default_factory=dict)
    timeout: float = 60.0          # CPU seconds for the solver-backed search
    hunt: bool = False             # bug-hunting only (not counted as coverage)
    twin: bool = True              # run the reachability twin

    def key(self):
        return self.name


def slices(name, fn, var, values, **kw) -> List['Ob']:
    return [Ob(f'{name}[{var}={v}]', fn, slice={var: v}, **kw)
            for v in values]


def within(**vals) -> bool:
    """Pre-condition helper: every value lies in its box SLICE['B'][name].

    The box travels in the obligation's slice, so evidence shows the bounds
    each obligation was decided for verbatim.
    """
    box = SLICE['B']
    for name, v in vals.items():
        lo, hi = box[name]
        if not (lo <= v <= hi):
            return False
    return True


class concrete:
    """Context manager: run the enclosed set-up natively (untraced).

    Under CrossHair this is ``NoTracing`` - the block must not touch symbolic
    values (it builds fixtures: pools, task proxies, managers).  In a plain
    replay it does nothing.
    """

    def __enter__(self):
        self._cm = None
        import sys
        if 'crosshair.tracers' in sys.modules:
            from crosshair.tracers import NoTracing, is_tracing
            if is_tracing():
                self._cm = NoTracing()
                self._cm.__enter__()
        return self

    def __exit__(self, *exc):
        if self._cm is not None:
            return self._cm.__exit__(*exc)
        return False


def fork_int(n, lo, hi):
    """Case-split a symbolic int in lo..hi into a concrete int (the solver
    decides which cases are feasible).  Use where the code under test would
    otherwise hand the value to C code / string formatting."""
    for v in range(lo, hi + 1):
        if n == v:
            return v
    raise AssertionError('fork_int: value outside stated range')


def fork_bool(b):
    return True if b else False

"""Concrete replay of a counterexample on the real code (no CrossHair).

usage: python -m vf.replay <replay.json>
The file holds {property, module, fn, args, kwargs, slice}.  Exit 0 and print
REPLAY holds / REPLAY fails (JSON detail).  The harness function is called
natively; the property fails if it returns a falsy value or raises.
"""
import importlib
import json
import os
import sys
import traceback


def run(spec):
    sys.path.insert(0, os.path.dirname(os.path.dirname(
        os.path.abspath(__file__))))
    from vf import api
    api.SLICE.clear()
    api.SLICE.update(spec.get('slice') or {})
    mod = importlib.import_module(spec['module'])
    fn = getattr(mod, spec['fn'])
    try:
        ret = fn(*spec.get('args', []), **spec.get('kwargs', {}))
    except Exception:
        return {'holds': False, 'raised': traceback.format_exc()[-2000:]}
    return {'holds': bool(ret), 'returned': repr(ret)}


def main():
    with open(sys.argv[1]) as f:
        spec = json.load(f)
    out = run(spec)
    print('REPLAY ' + ('holds ' if out['holds'] else 'fails ')
          + json.dumps(out))


if __name__ == '__main__':
    main()

"""E2: direct SMT queries built from artefacts of the real code."""
import ast
import time

import z3


class Unsupported(Exception):
    pass


def py_bool_to_z3(src, env=None):
    """Translate a Python boolean expression (and/or/parentheses/names, plus
    &, | between names) into a z3 Bool formula.  `env` maps names to z3
    expressions; missing names become fresh Bool constants (returned)."""
    env = {} if env is None else env
    tree = ast.parse(src.strip(), mode='eval')

    def go(n):
        if isinstance(n, ast.Expression):
            return go(n.body)
        if isinstance(n, ast.BoolOp):
            vals = [go(v) for v in n.values]
            if isinstance(n.op, ast.And):
                return z3.And(*vals)
            if isinstance(n.op, ast.Or):
                return z3.Or(*vals)
        if isinstance(n, ast.BinOp) and isinstance(n.op, (ast.BitAnd,
                                                           ast.BitOr)):
            a, b = go(n.left), go(n.right)
            return z3.And(a, b) if isinstance(n.op, ast.BitAnd) else z3.Or(
                a, b)
        if isinstance(n, ast.UnaryOp) and isinstance(n.op, ast.Not):
            return z3.Not(go(n.operand))
        if isinstance(n, ast.Name):
            if n.id not in env:
                env[n.id] = z3.Bool(n.id)
            return env[n.id]
        if isinstance(n, ast.Constant) and isinstance(n.value, bool):
            return z3.BoolVal(n.value)
        raise Unsupported(ast.dump(n))
    return go(tree), env


class Session:
    """One in-process solver with push/pop, query log and timing."""

    def __init__(self, timeout_ms=60000):
        self.s = z3.Solver()
        self.s.set('timeout', timeout_ms)
        self.queries = 0
        self.unsat = 0
        self.solver_s = 0.0
        self.log = []

    def check(self, *fmls, label=''):
        """Return ('unsat'|'sat'|'unknown', model-or-None)."""
        self.s.push()
        for f in fmls:
            self.s.add(f)
        t = time.perf_counter()
        r = str(self.s.check())
        dt = time.perf_counter() - t
        model = self.s.model() if r == 'sat' else None
        self.s.pop()
        self.queries += 1
        self.solver_s += dt
        if r == 'unsat':
            self.unsat += 1
        if len(self.log) < 12 or r != 'unsat':
            self.log.append({'q': label, 'result': r, 's': round(dt, 4)})
        return r, model

    def result(self, status, **extra):
        out = {'status': status, 'queries': self.queries,
               'paths_smt': self.unsat, 'solver_s': round(self.solver_s, 3),
               'query_log': self.log[:40]}
        out.update(extra)
        return out

"""Run one obligation with CrossHair (library mode) and print a JSON result.

usage: python -m vf.worker <module> <fn> <timeout_s> <slice-json> <mode>
mode: check | twin
"""
import ast
import json
import os
import sys
import time
import traceback


def parse_call(message: str, fname: str):
    """Extract concrete arguments from a CrossHair counterexample message."""
    marker = 'when calling '
    i = message.find(marker)
    if i < 0:
        return None
    rest = message[i + len(marker):]
    ends = [j for j, c in enumerate(rest) if c == ')']
    for j in ends:
        src = rest[:j + 1]
        try:
            node = ast.parse(src, mode='eval').body
        except SyntaxError:
            continue
        if not isinstance(node, ast.Call):
            continue
        try:
            args = [ast.literal_eval(a) for a in node.args]
            kwargs = {k.arg: ast.literal_eval(k.value) for k in node.keywords}
        except Exception:
            return {'unparsed': src}
        return {'args': args, 'kwargs': kwargs, 'src': src}
    return None


def main():
    modname, fname, timeout, slice_json, mode = sys.argv[1:6]
    timeout = float(timeout)
    sys.path.insert(0, os.path.dirname(os.path.dirname(
        os.path.abspath(__file__))))
    import zmq  # noqa: F401  import natively before CrossHair is loaded
    import importlib
    from vf import api
    api.SLICE.clear()
    api.SLICE.update(json.loads(slice_json))
    mod = importlib.import_module(modname)
    fn = getattr(mod, fname)

    if mode == 'smt':
        # direct SMT obligation: the harness builds the queries from the real
        # code's artefacts and returns the solver's verdicts
        t0 = time.time()
        try:
            res = dict(fn(dict(api.SLICE)))
        except Exception:
            res = {'status': 'harness_error',
                   'message': traceback.format_exc()[-1500:]}
        res.update(module=modname, fn=fname, mode=mode,
                   wall_s=round(time.time() - t0, 2))
        res.setdefault('solver_checks', res.get('queries', 0))
        print('RESULT ' + json.dumps(res, default=repr))
        return

    from vf import plugin
    plugin.install()
    n_self = plugin.selftest()
    if hasattr(mod, 'CH_PATCHES'):
        # property-specific environment models (listed in META['stubs'])
        mod.CH_PATCHES()

    from dataclasses import replace
    from time import process_time
    import crosshair.statespace as ss
    from crosshair.core import analyze_calltree
    from crosshair.core_and_libs import analyze_function  # noqa (loads libs)
    from crosshair.condition_parser import condition_parser
    from crosshair.fnutil import FunctionInfo
    from crosshair.options import (
        AnalysisOptionSet, AnalysisKind, DEFAULT_OPTIONS)
    from crosshair.statespace import VerificationStatus, MessageType

    # count solver queries and solver time
    stat = {'checks': 0, 'solver_s': 0.0}
    orig = ss.solver_is_sat

    def counted(solver, *exprs):
        t = time.perf_counter()
        try:
            return orig(solver, *exprs)
        finally:
            stat['checks'] += 1
            stat['solver_s'] += time.perf_counter() - t
    ss.solver_is_sat = counted
    # StateSpace methods resolve the global at call time: patch module global
    # (done above); nothing else holds a reference.

    opts = DEFAULT_OPTIONS.overlay(AnalysisOptionSet(
        per_condition_timeout=timeout,
        report_all=True,
        analysis_kind=[AnalysisKind.PEP316],
    ))
    res = {'module': modname, 'fn': fname, 'mode': mode,
           'slice': api.SLICE.copy(), 'selftest': n_self}
    t0 = time.time()
    c0 = process_time()
    try:
        ctxfn = FunctionInfo.from_fn(fn)
        with condition_parser(opts.analysis_kind) as parser:
            conditions = parser.get_fn_conditions(ctxfn)
        syn = list(conditions.syntax_messages()) if conditions else ['none']
        if conditions is None or syn:
            res.update(status='syntax', message=str(
                [getattr(m, 'message', m) for m in syn]))
        else:
            res['pre'] = [p.expr_source for p in conditions.pre]
            res['post'] = [p.expr_source for p in conditions.post]
            (post,) = conditions.post
            if mode == 'twin':
                post = replace(
                    post, evaluate=lambda bindings: False,
                    expr_source='False')
            conditions = replace(conditions, post=[post])
            import collections
            opts.stats = collections.Counter()
            opts.deadline = process_time() + timeout
            with condition_parser(opts.analysis_kind):
                analysis = analyze_calltree(opts, conditions)
            st = analysis.verification_status
            msgs = analysis.messages
            res['paths'] = int(opts.stats.get('num_paths', 0)) \
                if opts.stats is not None else 0
            res['confirmed_paths'] = analysis.num_confirmed_paths
            if st is VerificationStatus.CONFIRMED:
                res['status'] = 'confirmed'
            elif st is VerificationStatus.UNKNOWN:
                res['status'] = 'unknown'
            else:
                m = msgs[0] if msgs else None
                if m is None:
                    res['status'] = 'unknown'
                elif m.state == MessageType.PRE_UNSAT:
                    res.update(status='pre_unsat', message=m.message)
                elif m.state in (MessageType.POST_FAIL, MessageType.EXEC_ERR,
                                 MessageType.POST_ERR, MessageType.PRE_INVALID
                                 if hasattr(MessageType, 'PRE_INVALID')
                                 else MessageType.POST_ERR):
                    res.update(
                        status='refuted', kind=m.state.name,
                        message=m.message,
                        call=parse_call(m.message, fname),
                        tb=(m.traceback or '')[-1500:])
                else:
                    res.update(status='other', kind=m.state.name,
                               message=m.message)
    except Exception:
        res.update(status='harness_error', message=traceback.format_exc())
    res.update(solver_checks=stat['checks'],
               solver_s=round(stat['solver_s'], 3),
               cpu_s=round(process_time() - c0, 2),
               wall_s=round(time.time() - t0, 2))
    print('RESULT ' + json.dumps(res, default=repr))


if __name__ == '__main__':
    main()

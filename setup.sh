#!/bin/sh
# Build the overlay venv (offline, from the wheelhouse). Idempotent.
set -e
V=/verif/.venv
if [ ! -x "$V/bin/python" ] || ! "$V/bin/python" -c "import crosshair, z3" 2>/dev/null; then
    rm -rf "$V"
    /venv/bin/python -m venv "$V"
    SP=$("$V/bin/python" -c "import sysconfig; print(sysconfig.get_paths()['purelib'])")
    printf '/venv/lib/python3.12/site-packages\n/repo\n' > "$SP/_overlay.pth"
    PIP_NO_INDEX=1 "$V/bin/pip" install -q --no-index --find-links /opt/veriftools/wheels crosshair-tool z3-solver
fi
"$V/bin/python" -c "import crosshair, z3, cylc.flow; assert cylc.flow.__file__.startswith('/repo/'), cylc.flow.__file__"

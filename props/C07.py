"""C07 — task instances stay within cycle bounds and on their sequences."""
from vf.api import Ob, sl, SLICE, concrete, fork_int, fork_bool
from vf import fx

from cylc.flow.cycling.integer import IntegerPoint

META = dict(
    level='model_checking',
    text='Bounded symbolic execution, on a fixture with six recurrences '
         '(R1, P3, +P1/P4, R3/4/P4, P2!6, R1/$, and R1/-P1 which resolves before the initial point), offsets (-P3, +P1 future '
         'trigger, -P1) and initial/final points 2/12, of the real '
         'TaskPool.can_be_spawned, TaskDef.is_valid_point, spawn_on_output -> '
         'spawn_task (children of every parent instance and output), '
         'TaskDef.next_point_parentless / TaskPool.spawn_to_rh_limit, and '
         'set_stop_point + release_runahead_tasks + queue_if_ready: z3 '
         'decides on every path that a point is accepted iff it lies in '
         '[initial, final] and on a recurrence of the task (an independent '
         'arithmetic membership predicate), that every instance that enters '
         'the pool satisfies that predicate and is exactly the graph-implied '
         'child set, that parentless successors are the next member, and '
         'that no task beyond a stop point is released or queued.',
    note='integer cycling, fixture "seq" (8 tasks); candidate points 0..14; '
         'stop points 1..13; the membership predicate is written from the '
         'graph text by hand (listed in the harness); manual trigger beyond '
         'the stop point is outside.',
    functions=['TaskPool.can_be_spawned', 'TaskDef.is_valid_point',
               'IntegerSequence.is_valid', 'TaskPool.spawn_on_output',
               'TaskPool.spawn_task', 'TaskPool._load_db_task_proxy',
               'TaskDef.next_point_parentless', 'TaskDef.is_parentless',
               'TaskPool.spawn_to_rh_limit', 'TaskPool.set_stop_point',
               'TaskPool.compute_runahead', 'TaskPool.release_runahead_tasks',
               'TaskPool.queue_if_ready'],
    bounds=['points 0..14, all 8 fixture tasks, every (parent, point, '
            'output)', 'stop point 1..13, pooled instances of "f" and "c" '
            'in symbolic presence'],
    stubs=['pri_dao (no history)', 'data_store_mgr', 'workflow_db_mgr'],
    assumptions=[],
    outside=['datetime cycling', 'manual trigger beyond bounds'],
)

CFG = fx.cfg('seq')
ICP, FCP = 2, 12
NAMES = ['a', 'b', 'c', 'd', 'e', 'f', 'fin', 'start', 'pre']


def member(name, p):
    """Is p on a recurrence of task `name` (from the graph text)?"""
    if not (ICP <= p <= FCP):
        return False
    if name in ('a', 'b'):
        return (p - 2) % 3 == 0                      # R1 (=2) and P3
    if name in ('c', 'd'):
        return p >= 3 and (p - 3) % 4 == 0           # +P1/P4
    if name == 'e':
        return p in (4, 8, 12)                       # R3/4/P4
    if name == 'f':
        return p % 2 == 0 and p != 6                 # P2!6
    if name == 'fin':
        return p == FCP                              # R1/$
    if name == 'start':
        return p == ICP                              # R1
    # 'pre' (R1/-P1) resolves to point 1, before the initial point: it is on
    # its sequence but never within the workflow bounds
    return False


def children(name, p, output):
    """Graph-implied children of name@p:output that exist."""
    out = set()
    if name == 'start' and output == 'succeeded':
        out.add(('a', p))
    if name == 'a' and output == 'succeeded':
        out.add(('a', p + 3))
        out.add(('b', p))
    if name == 'a' and output == 'xx':
        out.add(('e', p - 1))                        # a[+P1]:x => e
    if name == 'b' and output == 'succeeded':
        out.add(('fin', p + 1))                      # b[-P1] => fin
    if name == 'c' and output == 'succeeded':
        out.add(('d', p))
    # an edge only exists where the child's recurrence says so
    res = set()
    for (n, q) in out:
        if not member(n, q):
            continue
        if n == 'a' and name == 'a' and not (q >= 5):
            continue
        if n == 'b' and not member('b', q):
            continue
        if n == 'e' and q not in (4, 8, 12):
            continue
        res.add((n, q))
    return res


def bounds(ni: int, p: int, manual: bool) -> bool:
    """
    pre: sl(ni=ni)
    pre: 0 <= ni < len(NAMES) and 0 <= p <= 14
    post: _
    """
    with concrete():
        pool = fx.pool(CFG)
    name = NAMES[fork_int(ni, 0, len(NAMES) - 1)]
    # (symbolic-point arithmetic of IntegerSequence.is_valid is C16's job;
    # here the point is case-split and the real code runs untraced)
    p = fork_int(p, 0, 14)
    manual = fork_bool(manual)
    with concrete():
        point = IntegerPoint(str(p))
        if manual:
            # the instance was named in a manual trigger of a pre-start task
            pool.pre_start_tasks_to_trigger.add((name, point))
        got = pool.can_be_spawned(name, point)
        return got == member(name, p) and not pool.can_be_spawned(
            'nosuch', point)


OUTS = ['succeeded', 'xx', 'failed']


def spawn_children(ni: int, p: int, oi: int, natural: bool) -> bool:
    """
    pre: sl(ni=ni)
    pre: 0 <= ni < len(NAMES) and 0 <= p <= 14 and 0 <= oi < 3
    pre: member(NAMES[SLICE['ni']], p)
    post: _
    """
    with concrete():
        pool = fx.pool(CFG)
        name = NAMES[SLICE['ni']]
    p = fork_int(p, 0, 14)
    oi = fork_int(oi, 0, 2)
    output = OUTS[oi]
    if ni != SLICE['ni']:
        return True
    natural = fork_bool(natural)
    with concrete():
        return _spawn_children(pool, name, p, output, natural)


def _spawn_children(pool, name, p, output, natural):
    parent = fx.itask(CFG, name, p)
    parent.state.is_runahead = False
    pool.add_to_pool(parent)
    if output not in parent.state.outputs._completed:
        return True
    if natural:
        parent.state.status = 'succeeded' if output != 'failed' else 'failed'
        for m in ('submitted', 'started', output):
            parent.state.outputs.set_message_complete(m)
    pool.spawn_on_output(parent, output)
    got = {(t.tdef.name, int(t.point)) for t in pool.get_tasks()
           if t is not parent}
    for (n, q) in got:
        if not member(n, q):
            return False                      # off-sequence / out of bounds
    return got == children(name, p, output)


def next_parentless(ni: int, p: int, cutoff: int) -> bool:
    """
    pre: 0 <= ni <= 1 and -1 <= p <= 13 and 2 <= cutoff <= 5
    post: _
    """
    with concrete():
        names = ['f', 'c']
    name = names[fork_int(ni, 0, 1)]
    tdef = CFG.get_taskdef(name)
    got = tdef.next_point_parentless(
        IntegerPoint(str(cutoff)),
        IntegerPoint(str(p)) if p >= 0 else None)
    lo = (cutoff if p < 0 else p + 1)
    want = None
    for q in range(max(lo, 0), 15):
        if member(name, q):
            want = q
            break
    if want is None:
        return got is None
    return got is not None and int(got) == want


def stop_point(sp: int, f2: bool, f4: bool, f8: bool, f10: bool, f12: bool,
               c3: bool, c7: bool) -> bool:
    """
    pre: sl(sp=sp)
    pre: 1 <= sp <= 13
    post: _
    """
    with concrete():
        pool = fx.pool(CFG)
    sp = fork_int(sp, 1, 13)
    bits = [fork_bool(b) for b in (f2, f4, f8, f10, f12, c3, c7)]
    # every input is concrete from here on: run the real code untraced
    with concrete():
        return _stop_point(pool, sp, bits)


def _stop_point(pool, sp, bits):
    tasks = []
    for (nm, q), b in zip((('f', 2), ('f', 4), ('f', 8), ('f', 10),
                           ('f', 12), ('c', 3), ('c', 7)), bits):
        if b:
            t = fx.itask(CFG, nm, q)
            pool.add_to_pool(t)
            tasks.append(t)
    if not tasks:
        return True
    pool.compute_runahead()
    pool.release_runahead_tasks()
    pool.set_stop_point(IntegerPoint(str(sp)))
    pool.compute_runahead()
    pool.release_runahead_tasks()
    for t in pool.get_tasks():
        pool.queue_if_ready(t)
    released = pool.release_queued_tasks()
    for t in pool.get_tasks():
        if not member(t.tdef.name, int(t.point)):
            return False
        if int(t.point) > sp and (
                not t.state.is_runahead or t.state.is_queued
                or any(r is t for r in released)):
            return False            # beyond the stop point: never released
    # the earliest task is never blocked by the limit unless beyond stop
    first = min(tasks, key=lambda t: int(t.point))
    if int(first.point) <= sp and first.state.is_runahead:
        return False
    return True


def OBLIGATIONS(tier):
    big = tier == 'thorough'
    t = 1500 if big else 160
    obs = [Ob('next_parentless', 'next_parentless', timeout=t)]
    for k in range(len(NAMES)):
        obs.append(Ob(f'bounds[{NAMES[k]}]', 'bounds', timeout=t,
                      twin=(k == 0), slice={'ni': k}))
    for ni in range(len(NAMES)):
        if NAMES[ni] == 'pre':
            continue                # never within bounds: no valid instance
        obs.append(Ob(f'spawn_children[{NAMES[ni]}]', 'spawn_children',
                      timeout=t, slice={'ni': ni},
                      twin=NAMES[ni] not in ('d', 'e', 'f', 'fin', 'pre')))
    for sp in range(1, 14):
        obs.append(Ob(f'stop_point[sp={sp}]', 'stop_point', timeout=t,
                      twin=(sp == 1), slice={'sp': sp}))
    return obs


def VALIDATE():
    n = 0
    for name in NAMES:
        td = CFG.get_taskdef(name)
        for p in range(0, 15):
            assert td.is_valid_point(IntegerPoint(str(p))) == (member(
                name, p) or (name, p) == ('pre', 1)), (name, p)
            n += 1
    SLICE['ni'] = 0
    assert spawn_children(0, 5, 0, True) and spawn_children(0, 5, 1, True)
    assert spawn_children(0, 11, 0, False)
    SLICE['ni'] = 1
    assert spawn_children(1, 11, 0, True)
    SLICE.clear()
    SLICE['sp'] = 5
    assert stop_point(5, True, True, True, False, False, True, True)
    SLICE.clear()
    return n + 5

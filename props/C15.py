"""C15 — family triggers expand to all/any of the members' outputs."""
import itertools

from vf.api import Ob, SLICE

from props._graph import parse, formula, to_z3

META = dict(
    level='translation_validation',
    technique='z3 equivalence between the trigger formulas the real '
              'GraphParser produces for family triggers and the AND / OR '
              'over member outputs written independently',
    text='For every family qualifier (succeed, fail, finish, start, submit, '
         'submit-fail, expire) x {all, any} x optional marker x family size '
         '1..3 (and a nested family expanded to 4 members) x offset or not x '
         'alone / mixed with a plain task trigger by & or |, the real '
         'GraphParser parses "FAM:<q>-<all|any> ... => x" and z3 proves that '
         'the conjunction of x\'s trigger expressions is equivalent to the '
         'AND (all) / OR (any) over the members of the corresponding member '
         'output (finish = succeeded | failed). For a family on the right of '
         'an arrow every member must receive exactly the written trigger and '
         'the declared optionality; the optionality recorded for member '
         'outputs on the left must be the declared one for every member.',
    note='graph text is concrete; families are passed to the parser as the '
         'member lists WorkflowConfig would give it; the enumeration is the '
         'bound, z3 decides the equivalences.',
    functions=['GraphParser.parse_graph', '_families_all_to_all / '
               '_proc_dep_pair family expansion', 'task_qualifiers',
               '_set_output_opt'],
    bounds=['7 qualifiers x {all, any} x {?, none} x 4 family shapes x '
            '{no offset, [-P1]} x {alone, & a, | a, | BAM:succeed-all, | BAM:fail-any?, (FAM.. | a) & (BAM[-P1]:start-any | a)}; right-hand families: 4 '
            'shapes x {plain, ?}'],
    stubs=['none'],
    assumptions=[],
    outside=['WorkflowConfig family-map construction (C35 covers the '
             'linearisation)', 'parameterised families'],
)

QUALS = {'succeed': ['succeeded'], 'fail': ['failed'],
         'finish': ['succeeded', 'failed'], 'start': ['started'],
         'submit': ['submitted'], 'submit-fail': ['submit-failed'],
         'expire': ['expired']}
FAMS = [['m1'], ['m1', 'm2'], ['m1', 'm2', 'm3'], ['m1', 'm2', 'n1', 'n2']]
MIX = [None, '&', '|', '|B-all', '|B-any', '&(B|a)']
BAM = ['b1', 'b2']


def lhs_cases():
    for q in QUALS:
        for mode in ('all', 'any'):
            for opt in ('', '?'):
                for fi in range(len(FAMS)):
                    for off in ('', '[-P1]'):
                        for mix in MIX:
                            yield q, mode, opt, fi, off, mix


def _text(q, mode, opt, off, mix):
    text = f'FAM{off}:{q}-{mode}{opt}'
    if mix in ('&', '|'):
        text += f' {mix} a'
    elif mix == '|B-all':
        text += ' | BAM:succeed-all'
    elif mix == '|B-any':
        text += ' | BAM:fail-any?'
    elif mix == '&(B|a)':
        text = f'({text} | a) & (BAM[-P1]:start-any | a)'
    return text + ' => x'


def _want(q, mode, members, off, mix, env):
    import z3
    want = expected(q, mode, members, off, env)
    a = to_z3('a:succeeded', env)
    if mix == '&':
        return z3.And(want, a)
    if mix == '|':
        return z3.Or(want, a)
    if mix == '|B-all':
        return z3.Or(want, expected('succeed', 'all', BAM, '', env))
    if mix == '|B-any':
        return z3.Or(want, expected('fail', 'any', BAM, '', env))
    if mix == '&(B|a)':
        return z3.And(z3.Or(want, a), z3.Or(
            expected('start', 'any', BAM, '[-P1]', env), a))
    return want


def expected(q, mode, members, off, env):
    import z3
    per = []
    for m in members:
        alts = [to_z3(f'{m}{off}:{o}', env) for o in QUALS[q]]
        per.append(z3.Or(*alts) if len(alts) > 1 else alts[0])
    if mode == 'all':
        return z3.And(*per) if len(per) > 1 else per[0]
    return z3.Or(*per) if len(per) > 1 else per[0]


def smt_lhs(slc):
    import z3
    from vf.smtx import Session
    ses = Session()
    n = 0
    for case in lhs_cases():
        q, mode, opt, fi, off, mix = case
        if q != slc.get('q', q):
            continue
        fam = {'FAM': list(FAMS[fi]), 'BAM': list(BAM)}
        text = _text(q, mode, opt, off, mix)
        got = parse(text, fam)
        n += 1
        if got is None:
            # some combinations are illegal by design (e.g. a required
            # expire / submit-fail): must be rejected for every family size
            if opt == '' and q in ('expire', 'submit-fail'):
                continue
            if opt == '?' and q == 'finish':
                continue       # finish is inherently optional: '?' illegal
            return ses.result('sat', message=f'{text!r} rejected',
                              call={'fn': 'replay_lhs', 'args': list(case)},
                              programs=n)
        trig, optmap = got
        env = {}
        want = _want(q, mode, FAMS[fi], off, mix, env)
        r, _ = ses.check(formula(trig['x'], env) != want, label=text)
        if r != 'unsat':
            return ses.result(
                'sat' if r == 'sat' else 'unknown',
                message=f'{text!r}: x <- {trig["x"]}',
                call={'fn': 'replay_lhs', 'args': list(case)}, programs=n)
        # declared optionality applied to every member output
        for m in FAMS[fi]:
            for o in QUALS[q]:
                rec = optmap.get((m, o))
                declared = (opt == '?') or q == 'finish'
                if rec is None or rec[0] != declared:
                    return ses.result(
                        'sat', message=f'{text!r}: optionality of {m}:{o} '
                        f'is {rec}, declared optional={declared}',
                        call={'fn': 'replay_lhs', 'args': list(case)},
                        programs=n)
    return ses.result('unsat', programs=n)


def replay_lhs(q, mode, opt, fi, off, mix) -> bool:
    """Truth-table check (z3 only used as an evaluator of ground formulas)."""
    import z3
    fam = {'FAM': list(FAMS[fi]), 'BAM': list(BAM)}
    got = parse(_text(q, mode, opt, off, mix), fam)
    if got is None:
        return (opt == '' and q in ('expire', 'submit-fail')) or (
            opt == '?' and q == 'finish')
    trig, optmap = got
    env = {}
    want = _want(q, mode, FAMS[fi], off, mix, env)
    have = formula(trig['x'], env)
    names = sorted(env)
    if len(names) > 14:
        return True
    for vals in itertools.product((False, True), repeat=len(names)):
        sub = [(env[k], z3.BoolVal(v)) for k, v in zip(names, vals)]
        if z3.is_true(z3.simplify(z3.substitute(want, *sub))) != z3.is_true(
                z3.simplify(z3.substitute(have, *sub))):
            return False
    for m in FAMS[fi]:
        for o in QUALS[q]:
            rec = optmap.get((m, o))
            if rec is None or rec[0] != ((opt == '?') or q == 'finish'):
                return False
    return True


def smt_rhs(slc):
    from vf.smtx import Session
    import z3
    ses = Session()
    n = 0
    for fi in range(len(FAMS)):
        for opt in ('', '?'):
            for lhs in ('a', 'a & b:x?', 'a | b'):
                fam = {'FAM': list(FAMS[fi])}
                text = f'{lhs} => FAM{opt}'
                got = parse(text, fam)
                n += 1
                if got is None:
                    return ses.result(
                        'sat', message=f'{text!r} rejected',
                        call={'fn': 'replay_rhs', 'args': [fi, opt, lhs]},
                        programs=n)
                trig, optmap = got
                want_src = {'a': 'a:succeeded', 'a & b:x?': 'a:succeeded&b:x',
                            'a | b': 'a:succeeded|b:succeeded'}[lhs]
                for m in FAMS[fi]:
                    env = {}
                    if m not in trig:
                        return ses.result(
                            'sat', message=f'{text!r}: member {m} has no '
                            'trigger', call={'fn': 'replay_rhs',
                                             'args': [fi, opt, lhs]},
                            programs=n)
                    r, _ = ses.check(
                        formula(trig[m], env) != to_z3(want_src, env),
                        label=f'{text} / {m}')
                    if r != 'unsat':
                        return ses.result(
                            'sat' if r == 'sat' else 'unknown',
                            message=f'{text!r}: {m} <- {trig[m]}',
                            call={'fn': 'replay_rhs',
                                  'args': [fi, opt, lhs]}, programs=n)
                    rec = optmap.get((m, 'succeeded'))
                    if opt == '?' and (rec is None or rec[0] is not True):
                        return ses.result(
                            'sat', message=f'{text!r}: {m}:succeeded not '
                            f'optional ({rec})', call={
                                'fn': 'replay_rhs', 'args': [fi, opt, lhs]},
                            programs=n)
                    if opt == '' and rec is not None and rec[0] is True:
                        return ses.result(
                            'sat', message=f'{text!r}: {m}:succeeded '
                            f'optional ({rec})', call={
                                'fn': 'replay_rhs', 'args': [fi, opt, lhs]},
                            programs=n)
                if set(trig) - set(FAMS[fi]) - {'a', 'b'}:
                    return ses.result(
                        'sat', message=f'{text!r}: extra nodes {set(trig)}',
                        call={'fn': 'replay_rhs', 'args': [fi, opt, lhs]},
                        programs=n)
    return ses.result('unsat', programs=n)


def replay_rhs(fi, opt, lhs) -> bool:
    fam = {'FAM': list(FAMS[fi])}
    got = parse(f'{lhs} => FAM{opt}', fam)
    if got is None:
        return False
    trig, optmap = got
    want = {'a': ['a:succeeded'], 'a & b:x?': ['a:succeeded', 'b:x'],
            'a | b': ['a:succeeded|b:succeeded']}[lhs]
    for m in FAMS[fi]:
        if sorted(trig.get(m, [])) != sorted(want):
            return False
        rec = optmap.get((m, 'succeeded'))
        if opt == '?' and (rec is None or rec[0] is not True):
            return False
        if opt == '' and rec is not None and rec[0] is True:
            return False
    return True


EXTRAS = [None, 'e => m1', 'm2 => z', 'e => FAM']


def fam_chain_cases():
    for q in ('succeed', 'fail', 'finish', 'start'):
        for mode in ('all', 'any'):
            for opt in ('', '?'):
                for fi in (1, 2):
                    for extra in EXTRAS:
                        for left in ('a', 'a & b'):
                            yield q, mode, opt, fi, extra, left


def _fam_chain_texts(q, mode, opt, extra, left):
    mid = f'FAM:{q}-{mode}{opt}'
    tail = ('\n' + extra) if extra else ''
    return (f'{left} => {mid} => x{tail}',
            f'{left} => {mid}\n{mid} => x{tail}')


def smt_fam_chain(slc):
    """A family in the middle of a chain: chain vs separate pairs."""
    from vf.smtx import Session
    ses = Session()
    n = 0
    for case in fam_chain_cases():
        q, mode, opt, fi, extra, left = case
        fam = {'FAM': list(FAMS[fi])}
        chain, pairs = _fam_chain_texts(q, mode, opt, extra, left)
        a, b = parse(chain, fam), parse(pairs, fam)
        n += 1
        call = {'fn': 'replay_fam_chain', 'args': list(case)}
        if (a is None) != (b is None):
            return ses.result('sat', message=f'{chain!r} accepted / rejected '
                              'unlike its pairs form', call=call, programs=n)
        if a is None:
            continue
        if set(a[0]) != set(b[0]) or a[1] != b[1]:
            return ses.result(
                'sat', message=f'{chain!r} vs pairs: {a} / {b}', call=call,
                programs=n)
        for task in a[0]:
            env = {}
            r, _ = ses.check(formula(a[0][task], env)
                             != formula(b[0][task], env),
                             label=f'{chain} / {task}')
            if r != 'unsat':
                return ses.result(
                    'sat' if r == 'sat' else 'unknown',
                    message=f'{chain!r}: {task} <- {a[0][task]} vs '
                    f'{b[0][task]}', call=call, programs=n)
    return ses.result('unsat', programs=n)


def replay_fam_chain(q, mode, opt, fi, extra, left) -> bool:
    fam = {'FAM': list(FAMS[fi])}
    chain, pairs = _fam_chain_texts(q, mode, opt, extra, left)
    a, b = parse(chain, fam), parse(pairs, fam)
    if (a is None) != (b is None):
        return False
    if a is None:
        return True
    return {k: sorted(v) for k, v in a[0].items()} == {
        k: sorted(v) for k, v in b[0].items()} and a[1] == b[1]


def OBLIGATIONS(tier):
    big = tier == 'thorough'
    t = 1200 if big else 170
    return [Ob(f'smt_lhs[{q}]', 'smt_lhs', kind='smt', timeout=t, twin=False,
               slice={'q': q}) for q in QUALS] + [
        Ob('smt_rhs', 'smt_rhs', kind='smt', timeout=t, twin=False),
        Ob('smt_fam_chain', 'smt_fam_chain', kind='smt', timeout=t,
           twin=False)]


def VALIDATE():
    n = 0
    # tests/unit/test_graph_parser.py family literals
    t, o = parse('FAM:succeed-all => x', {'FAM': ['m1', 'm2']})
    assert t['x'] == ['(m1:succeeded&m2:succeeded)']
    t, o = parse('FAM:fail-any? => x', {'FAM': ['m1', 'm2']})
    assert t['x'] == ['(m1:failed|m2:failed)'] and o[('m1', 'failed')][0]
    assert replay_lhs('finish', 'all', '', 1, '[-P1]', '&')
    assert replay_rhs(1, '?', 'a | b') and replay_rhs(2, '', 'a & b:x?')
    return n + 5

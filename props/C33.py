"""C33 — xtriggers are called with the documented discipline."""
from vf.api import Ob, sl, SLICE, concrete, fork_int
from vf import fx

import cylc.flow.xtrigger_mgr as _xm

META = dict(
    level='model_checking',
    text='Bounded symbolic execution of the real XtriggerManager.'
         'call_xtriggers_async / callback / housekeep over symbolic schedules: '
         'which of two tasks sharing one xtrigger signature is visited, when '
         '(symbolic non-decreasing clock), what the function call returns '
         '(succeeded / not yet / malformed output / non-zero exit) and when '
         'housekeeping runs; z3 decides on every path that a call is queued '
         'to the process pool only if none is in progress for the signature, '
         'at least the configured interval after the previous one, never '
         'again after a success while a task still needs it, and that every '
         'task visited after the success becomes satisfied.',
    note='one signature (echo, interval PT10S) shared by two tasks; 5 '
         '(thorough 6) scheduled events; clock steps 0..12 s; process pool, '
         'broadcast manager, data store and DB are recording stubs; '
         'wall_clock xtriggers (synchronous branch) and sequential '
         'xtriggers are checked only through the satisfied-signature branch.',
    functions=['XtriggerManager.call_xtriggers_async', 'XtriggerManager.'
               'callback', 'XtriggerManager.housekeep', 'XtriggerManager.'
               '_get_xtrigs / get_xtrig_ctx'],
    bounds=['events: visit a / visit b / callback(succeeded | not | '
            'malformed | error exit) / housekeep; 5 quick, 6 thorough',
            'clock increment before each event: 0..12 (interval = 10); clock '
            'and interval are integer seconds'],
    stubs=['proc_pool.put_command (recorded; the harness plays the callback)',
           'cylc.flow.xtrigger_mgr.time -> symbolic clock', 'broadcast_mgr, '
           'data_store_mgr, workflow_db_mgr (recording)'],
    assumptions=['the process pool runs each queued command once and calls '
                 'back once (C42)'],
    outside=['SubProcPool itself', 'wall_clock arithmetic (datetime)'],
)

CFG = fx.cfg('xtrig')
INTVL = 10
OUTS = {2: ('[true, {"k": 1}]', 0), 3: ('[false, {}]', 0),
        4: ('not json', 0), 5: ('[true, {"k": 2}]', 1)}


def schedule(e1: int, e2: int, e3: int, e4: int, e5: int, e6: int, e7: int,
             d1: int, d2: int, d3: int, d4: int, d5: int, d6: int,
             d7: int) -> bool:
    """
    pre: sl(e1=e1, e2=e2)
    pre: 0 <= e1 <= 1 and 0 <= e2 <= 6 and 0 <= e3 <= 6 and 0 <= e4 <= 6
    pre: 0 <= e5 <= 6 and 0 <= e6 <= 6 and 0 <= e7 <= 6
    pre: 0 <= d1 <= 12 and 0 <= d2 <= 12 and 0 <= d3 <= 12 and 0 <= d4 <= 12
    pre: 0 <= d5 <= 12 and 0 <= d6 <= 12 and 0 <= d7 <= 12
    post: _
    """
    with concrete():
        mgr = fx.xtrigger_mgr()
        mgr.xtriggers.update(CFG.xtrigger_collator)
        # integer seconds (the parsed interval is the float 10.0; mixed
        # int/float arithmetic makes z3 time out) - stated bound
        mgr.xtriggers.functx_map['x1'].intvl = INTVL
        tasks = [fx.itask(CFG, 'a', 1), fx.itask(CFG, 'b', 1)]
        n = SLICE.get('n', 5)
    clock = [100]
    _xm.time = lambda: clock[0]
    calls = []              # times of put_command
    pending = []            # contexts queued, awaiting callback
    orig_put = mgr.proc_pool

    class Pool:
        def put_command(self, ctx, callback=None, **k):
            calls.append(clock[0])
            pending.append(ctx)
    mgr.proc_pool = Pool()
    succeeded = False
    for e, d in list(zip((e1, e2, e3, e4, e5, e6, e7),
                         (d1, d2, d3, d4, d5, d6, d7)))[:n]:
        e = fork_int(e, 0, 6)
        clock[0] = clock[0] + d
        if e <= 1:
            itask = tasks[e]
            n_before = len(calls)
            in_progress = len(pending) > 0
            mgr.call_xtriggers_async(itask)
            if len(calls) > n_before:
                if len(calls) != n_before + 1:
                    return False
                if in_progress or succeeded:
                    return False       # overlapping call / call after success
                if n_before and calls[-1] - calls[-2] < INTVL:
                    return False       # too soon
            if succeeded and not itask.state.xtriggers['x1']:
                return False           # dependent task not satisfied
            if not succeeded and itask.state.xtriggers['x1']:
                return False           # satisfied without a success
        elif e <= 5:
            if not pending:
                continue
            ctx = pending.pop(0)
            ctx.out, ctx.ret_code = OUTS[e]
            mgr.callback(ctx)
            if e == 2 or e == 5:
                succeeded = True
        else:
            mgr.housekeep(tasks)
    return True


def OBLIGATIONS(tier):
    big = tier == 'thorough'
    t = 1800 if big else 170
    obs = []
    for e1 in (0, 1):
        for e2 in range(7):
            obs.append(Ob(f'schedule[e1={e1},e2={e2}]', 'schedule', timeout=t,
                          twin=(e2 == 0),
                          slice={'e1': e1, 'e2': e2, 'n': 6 if big else 5}))
    return obs


def VALIDATE():
    n = 0
    SLICE.update(n=6)
    for es, ds in (((0, 1, 2, 1, 6, 0), (0, 5, 0, 0, 0, 0)),
                   ((0, 3, 0, 0, 2, 1), (0, 1, 5, 5, 0, 12)),
                   ((1, 4, 1, 5, 0, 6), (12, 12, 12, 0, 0, 0))):
        SLICE.update(e1=es[0], e2=es[1])
        assert schedule(*es, 0, *ds, 0), (es, ds)
        n += 1
    SLICE.clear()
    return n

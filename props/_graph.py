"""Shared by C14/C15: trigger-expression strings -> z3, parser wrapper."""
import re

from cylc.flow.exceptions import GraphParseError
from cylc.flow.graph_parser import GraphParser

TOK = re.compile(r'\s*([&|()]|[^&|()\s]+)')


def to_z3(expr, env):
    """Parse a GraphParser trigger expression ('a:x&(b:succeeded|c:y)')
    into a z3 formula; atoms become Bool constants recorded in env."""
    import z3
    toks = TOK.findall(expr)
    pos = [0]

    def atom():
        t = toks[pos[0]]
        if t == '(':
            pos[0] += 1
            v = disj()
            assert toks[pos[0]] == ')', expr
            pos[0] += 1
            return v
        assert t not in '&|)', expr
        pos[0] += 1
        if t not in env:
            env[t] = z3.Bool(t)
        return env[t]

    def conj():
        vals = [atom()]
        while pos[0] < len(toks) and toks[pos[0]] == '&':
            pos[0] += 1
            vals.append(atom())
        return z3.And(*vals) if len(vals) > 1 else vals[0]

    def disj():
        vals = [conj()]
        while pos[0] < len(toks) and toks[pos[0]] == '|':
            pos[0] += 1
            vals.append(conj())
        return z3.Or(*vals) if len(vals) > 1 else vals[0]
    v = disj()
    assert pos[0] == len(toks), expr
    return v


def parse(text, fam=None):
    """Real parser -> ({right: [expr, ...]}, optionality map) or None."""
    gp = GraphParser(fam or {})
    try:
        gp.parse_graph(text)
    except GraphParseError:
        return None
    trig = {r: sorted(e for e in exprs if e)
            for r, exprs in gp.triggers.items()}
    # (is-optional only: the other two fields - family default, fixed - are
    # parser-internal, depend on the order pairs happen to be processed in,
    # and are not read by WorkflowConfig.set_required_outputs)
    return trig, {k: (v[0],) for k, v in gp.task_output_opt.items()}


def formula(exprs, env):
    """All prerequisites of one task: conjunction of its expressions."""
    import z3
    if not exprs:
        return z3.BoolVal(True)
    fs = [to_z3(e, env) for e in exprs]
    return z3.And(*fs) if len(fs) > 1 else fs[0]

"""C01 — graph-faithful execution: exactly the graph-implied instances run."""
import logging

from vf.api import Ob, sl, SLICE, concrete, fork_int, fork_bool
from vf import fx

import types
from types import SimpleNamespace as NS
from cylc.flow.scheduler import Scheduler

META = dict(
    level='model_checking',
    text='Bounded exploration, decided path by path, of whole runs of a small '
         'cycling workflow (a:x? | a[-P1] => b; a => c; a & d => e on P1, points 1..2) '
         'driven through the real TaskPool (compute_runahead, '
         'release_runahead_tasks, queue_if_ready, release_queued_tasks, '
         'spawn_on_output, remove_if_complete) and the real '
         'TaskEventsManager.process_message with the main-loop steps played '
         'by the harness: the order in which running jobs finish, whether '
         'the optional output x is produced by each instance of a, and '
         'whether each job fails first and is retried are symbolic. z3 '
         'certifies that every order within the bound was taken; on each, '
         'every submission happens with all prerequisites satisfied by '
         'outputs that were actually completed upstream, lies on the task\'s '
         'sequence within the cycle bounds, no instance is submitted twice '
         '(beyond its configured retries), the set of submitted instances '
         'equals the spawn-on-demand closure computed independently from the '
         'graph, and at the end the pool is empty and the real '
         'Scheduler.check_auto_shutdown grants shutdown. Obligations '
         'graphs[*]: 8 x 7 generated graphs over tasks a, b, c (and / or '
         'expressions, optional custom output a:x?, offsets -P1 / -P2 incl. '
         'self and backward dependence) on three cycle points are run through '
         'vf.sim.Sim (real pool, events manager, sqlite database, '
         'Scheduler.release_tasks_to_run) under symbolic x bits and completion '
         'orders; the instances submitted must equal - each once - a '
         'reference spawn-on-demand closure computed from the graph\'s own '
         'syntax tree (an instance is spawned when all its atoms are '
         'pre-initial or one of them completes, and runs when its expression '
         'is then true).',
    note='one fixture graph, two cycle points (10-11 instances), every '
         'completion order (6 scheduling choices of 4 alternatives, thorough 7), '
         'x / no-x per instance of a, one execution failure + retry of a@1; '
         'job submission and messaging are played atomically per event by '
         'the harness (no subprocesses); datetime cycling, families and '
         'other graphs are outside; all finished tasks are complete.',
    functions=['TaskPool.compute_runahead', 'TaskPool.release_runahead_tasks',
               'TaskPool.queue_if_ready', 'TaskPool.release_queued_tasks',
               'TaskPool.spawn_on_output', 'TaskPool.spawn_task',
               'TaskPool.remove_if_complete', 'TaskPool.spawn_next_parentless',
               'TaskEventsManager.process_message', 'TaskProxy.is_ready_to_run',
               'Scheduler.check_auto_shutdown'],
    bounds=['graph: a:x? | a[-P1] => b; a => c; a & d => e; P1, initial 1, final 2',
            'completion order: 6 choices x 4 alternatives (thorough: 7 x 4); x bit per a '
            'instance; optional failure+retry of a@1'],
    stubs=['job submission / messaging played by the harness', 'task_states / task_outputs tables: '
           'dictionary model fed by the put_* calls the real code makes', 'data_store_mgr', 'workflow_db_mgr',
           'retry xtrigger satisfied immediately'],
    assumptions=['every finished task completes its required outputs'],
    outside=['other graphs, families, datetime cycling',
             'real job submission, polling, message queues'],
)

CFG = fx.cfg('run2')
ET = '2020-01-01T00:00:00Z'


def closure(x1, x2):
    want = {('a', 1), ('a', 2), ('c', 1), ('c', 2), ('b', 2),
            ('d', 1), ('d', 2), ('e', 1), ('e', 2)}
    if x1:
        want.add(('b', 1))
    return want


def _run(choices, x1, x2, fail1, cfg=None, want=None, fcp=2):
    cfg = cfg or CFG
    import cylc.flow.task_action_timer as tat
    from cylc.flow.task_job_mgr import TaskJobManager
    tat.time = lambda: 1000.0
    pool = fx.pool(cfg, real_events=True)
    tem = pool.task_events_mgr
    tem.spawn_func = pool.spawn_on_output
    from vf.fx import XtrigStub
    tem.xtrigger_mgr = XtrigStub()
    tem.workflow_db_mgr = pool.workflow_db_mgr
    fx.history_db(pool)      # task history as the DB tables would hold it
    # start-up: first parentless instances (as _load_pool_from_point does)
    pool.load_from_point() if hasattr(pool, 'load_from_point') else None
    submitted = []          # (name, point) per submission
    completed = set()       # (point, name, output message) actually completed
    failed_once = [False]
    ci = iter(choices)

    def msg(t, m, sev=logging.INFO, internal=False):
        tem.process_message(
            t, sev, m, ET,
            tem.FLAG_INTERNAL if internal else tem.FLAG_RECEIVED,
            submit_num=t.submit_num)

    for _step in range(40):
        pool.compute_runahead()
        pool.release_runahead_tasks()
        for t in pool.get_tasks():
            if t.state.status == 'waiting' and not t.state.is_queued \
                    and not t.state.is_runahead:
                for k in list(t.state.xtriggers):
                    t.state.xtriggers[k] = True      # retry delay elapsed
                pool.queue_if_ready(t)
        for t in pool.release_queued_tasks():
            if t.state.status != 'waiting':
                continue
            # --- submission: every prerequisite atom that is satisfied must
            # correspond to an output completed upstream (or be pre-initial)
            if not t.state.prerequisites_all_satisfied():
                return False
            for pre in t.state.prerequisites:
                for k, v in pre._satisfied.items():
                    if v and int(k.point) >= 1 and (
                            k.point, k.task, k.output) not in completed:
                        return False
            if not (1 <= int(t.point) <= fcp):
                return False
            submitted.append((t.tdef.name, int(t.point)))
            t.waiting_on_job_prep = False
            t.submit_num += 1
            t.state.status = 'preparing'
            TaskJobManager._set_retry_timers(t)
            msg(t, 'submitted', internal=True)
        active = sorted(
            (t for t in pool.get_tasks()
             if t.state.status in ('submitted', 'running')),
            key=lambda t: t.identity)
        if not active:
            if any(t.state.status == 'waiting' and not t.state.is_runahead
                   and t.is_ready_to_run() for t in pool.get_tasks()):
                continue
            break
        c = next(ci, 0)
        t = active[c % len(active)]
        ident = (str(t.point), t.tdef.name)
        msg(t, 'started')
        completed.add(ident + ('started',))
        if t.tdef.name == 'a' and int(t.point) == 1 and fail1 \
                and not failed_once[0]:
            failed_once[0] = True
            msg(t, 'failed', logging.CRITICAL)
            if t.state.status != 'waiting':
                return False          # a has execution retries configured
            continue
        if t.tdef.name == 'a' and (x1 if int(t.point) == 1 else x2):
            msg(t, 'xx')
            completed.add(ident + ('xx',))
        completed.add(ident + ('succeeded',))
        msg(t, 'succeeded')
    else:
        return False                  # did not finish within the bound
    # --- end of run
    want = want or closure(x1, x2)
    counts = {}
    for s in submitted:
        counts[s] = counts.get(s, 0) + 1
    if set(counts) != want:
        return False
    for s, n in counts.items():
        if n != (2 if (s == ('a', 1) and fail1) else 1):
            return False
    if pool.get_tasks():
        return False
    schd = NS(is_paused=False, is_restart_timeout_wait=False,
              is_stalled=False, pool=pool,
              workflow_db_mgr=pool.workflow_db_mgr, timers={},
              EVENT_STALL=Scheduler.EVENT_STALL,
              EVENT_STALL_TIMEOUT=Scheduler.EVENT_STALL_TIMEOUT,
              update_data_store=lambda: None,
              run_event_handlers=lambda *a, **k: None)
    schd.check_workflow_stalled = types.MethodType(
        Scheduler.check_workflow_stalled, schd)
    return Scheduler.check_auto_shutdown(schd) is True


def run(c1: int, c2: int, c3: int, c4: int, c5: int, c6: int, c7: int,
        c8: int, x1: bool, x2: bool, fail1: bool) -> bool:
    """
    pre: sl(c1=c1, c2=c2)
    pre: 0 <= c1 <= SLICE['alt'] and 0 <= c2 <= SLICE['alt']
    pre: 0 <= c3 <= SLICE['alt'] and 0 <= c4 <= SLICE['alt']
    pre: 0 <= c5 <= SLICE['alt'] and 0 <= c6 <= SLICE['alt']
    pre: 0 <= c7 <= SLICE['alt'] and 0 <= c8 <= SLICE['alt']
    pre: SLICE['n'] >= 8 or c8 == 0
    pre: SLICE['n'] >= 7 or c7 == 0
    post: _
    """
    cs = [fork_int(c, 0, 3) for c in (c1, c2, c3, c4, c5, c6, c7, c8)]
    x1, x2, fail1 = fork_bool(x1), fork_bool(x2), fork_bool(fail1)
    with concrete():
        return _run(cs, x1, x2, fail1)


CFG3 = fx.cfg('run3')
# mixed recurrences: foo on P1 (1..4); bar, baz on P2 (1, 3) with
# foo[-P1] => bar (bar@1: pre-initial parent; bar@3 <- foo@2); qux once at 2
# off the absolute foo[^]
WANT3 = {('foo', 1), ('foo', 2), ('foo', 3), ('foo', 4), ('bar', 1),
         ('bar', 3), ('baz', 1), ('baz', 3), ('qux', 2)}


def run3(c1: int, c2: int, c3: int, c4: int, c5: int, c6: int, c7: int,
         c8: int) -> bool:
    """
    pre: sl(c1=c1)
    pre: 0 <= c1 <= 3 and 0 <= c2 <= 3 and 0 <= c3 <= 3 and 0 <= c4 <= 3
    pre: 0 <= c5 <= 3 and 0 <= c6 <= 3 and 0 <= c7 <= 3 and 0 <= c8 <= 3
    pre: SLICE['n'] >= 8 or c8 == 0
    pre: SLICE['n'] >= 7 or c7 == 0
    pre: SLICE['n'] >= 6 or (c5 == 0 and c6 == 0)
    post: _
    """
    cs = [fork_int(c, 0, 3) for c in (c1, c2, c3, c4, c5, c6, c7, c8)]
    with concrete():
        return _run(cs, False, False, False, CFG3, WANT3, 4)


def OBLIGATIONS(tier):
    big = tier == 'thorough'
    t = 1800 if big else 170
    alt, n = (3, 7) if big else (3, 6)
    return [Ob(f'run[c1={c1},c2={c2}]', 'run', timeout=t,
               twin=(c1 == 0 and c2 == 0),
               slice={'c1': c1, 'c2': c2, 'alt': alt, 'n': n})
            for c1 in range(alt + 1) for c2 in range(alt + 1)] + [
        Ob(f'run3[c1={c1}]', 'run3', timeout=t, twin=(c1 == 0),
           slice={'c1': c1, 'n': 7 if big else 6}) for c1 in range(4)] + [
        Ob(f'graphs[b<={_expr_text(ATOMS_B[eb])}]', 'graphs', timeout=t,
           twin=(eb == 0), slice={'eb': eb, 'full': big})
        for eb in range(len(ATOMS_B))]


def VALIDATE():
    n = 0
    assert _run([0] * 8, False, False, False)
    assert _run([1, 0, 2, 1, 0, 3, 0, 0], True, True, True)
    assert _run([3, 3, 3, 3, 3, 3, 3, 3], True, False, False)
    assert _run([0] * 8, False, False, False, CFG3, WANT3, 4)
    assert _run([1, 2, 3, 0, 1, 2, 3, 1], False, False, False, CFG3, WANT3, 4)
    return n + 5


# ---------------------------------------------------------------------------
# generated graphs: the run of each graph of a bounded family against a
# reference spawn-on-demand closure computed from the graph's own AST
ATOMS_B = [
    [('a', 0, 's')],                                  # a => b
    [('a', 0, 'x')],                                  # a:x? => b
    [('a', -1, 's')],                                 # a[-P1] => b
    ['|', ('a', 0, 's'), ('b', -1, 's')],             # a | b[-P1] => b
    ['&', ('a', 0, 's'), ('b', -1, 's')],             # a & b[-P1] => b
    ['|', ('a', 0, 'x'), ('a', -1, 's')],             # a:x? | a[-P1] => b
    [('c', -1, 's')],                                 # c[-P1] => b
    ['&', ('a', 0, 'x'), ('c', -2, 's')],             # a:x? & c[-P2] => b
]
ATOMS_C = [
    None,
    [('b', 0, 's')],
    ['&', ('a', 0, 's'), ('b', 0, 's')],
    ['|', ('a', 0, 's'), ('b', 0, 's')],
    ['&', ('b', -1, 's'), ('a', 0, 's')],
    ['&', ('a', 0, 'x'), ('b', 0, 's')],
    ['|', ('b', 0, 's'), ('c', -1, 's')],
]
NPOINTS = 3


def _atoms(expr):
    return [e for e in expr if isinstance(e, tuple)]


def _atom_text(atom):
    name, off, out = atom
    s = name + (f'[-P{-off}]' if off else '')
    return s + (':x?' if out == 'x' else '')


def _expr_text(expr):
    op = expr[0] if isinstance(expr[0], str) else None
    return f' {op} '.join(_atom_text(a) for a in _atoms(expr))


def _value(expr, p, done):
    vals = [(q := p + a[1]) < 1 or (a[0], q, a[2]) in done
            for a in _atoms(expr)]
    if expr[0] == '|':
        return any(vals)
    return all(vals)


def _reference(eb, ec, xbits):
    exprs = {'a': None, 'b': ATOMS_B[eb], 'c': ATOMS_C[ec]}
    runs, done = set(), set()
    while True:
        before = len(runs)
        for p in range(1, NPOINTS + 1):
            for t, expr in exprs.items():
                if (t, p) in runs:
                    continue
                if t == 'c' and expr is None:
                    continue              # c is not in the graph
                if expr is None:
                    go = True
                else:
                    ats = _atoms(expr)
                    spawned = all(p + a[1] < 1 for a in ats) or any(
                        p + a[1] >= 1 and (a[0], p + a[1], a[2]) in done
                        for a in ats)
                    go = spawned and _value(expr, p, done)
                if go:
                    runs.add((t, p))
                    done.add((t, p, 's'))
                    if t == 'a' and xbits[p - 1]:
                        done.add((t, p, 'x'))
        if len(runs) == before:
            return runs


_GCFG = {}


def _gcfg(eb, ec):
    import os
    import tempfile
    from cylc.flow.config import WorkflowConfig
    from cylc.flow.scheduler_cli import RunOptions
    key = (eb, ec)
    if key not in _GCFG:
        lines = [f'{_expr_text(ATOMS_B[eb])} => b']
        if ATOMS_C[ec] is not None:
            lines.append(f'{_expr_text(ATOMS_C[ec])} => c')
        d = tempfile.mkdtemp(prefix='cylc-verif-c01g-')
        path = os.path.join(d, 'flow.cylc')
        with open(path, 'w') as f:
            f.write(
                '[scheduler]\n    allow implicit tasks = True\n'
                '[scheduling]\n    cycling mode = integer\n'
                '    initial cycle point = 1\n'
                f'    final cycle point = {NPOINTS}\n'
                '    [[graph]]\n        P1 = """\n            a\n'
                + ''.join(f'            {x}\n' for x in lines)
                + '        """\n[runtime]\n    [[a]]\n'
                '        [[[outputs]]]\n            x = xx\n')
        try:
            _GCFG[key] = WorkflowConfig(f'g{eb}_{ec}', path, RunOptions())
        finally:
            import shutil
            shutil.rmtree(d, ignore_errors=True)
    return _GCFG[key]


def _graph_run(eb, ec, x1, x2, x3, o1, o2, o3):
    import shutil
    import tempfile
    from vf.sim import Sim
    cfg = _gcfg(eb, ec)
    xbits = [x1, x2, x3]
    d = tempfile.mkdtemp(prefix='cylc-verif-c01r-')
    sim = Sim(cfg, d)
    try:
        sim.cold_start()
        order = iter([o1, o2, o3])
        for _step in range(40):
            sim.loop()
            act = sim.active()
            if not act:
                break
            t = act[next(order, 0) % len(act)]
            outs = ['xx'] if (t.tdef.name == 'a'
                              and xbits[int(t.point) - 1]) else []
            sim.finish(t, outputs=outs)
        else:
            return False
        got = [(s[0], s[1]) for s in sim.submitted]
        want = _reference(eb, ec, xbits)
        if len(got) != len(set(got)):
            return False              # something ran twice
        return set(got) == want
    finally:
        sim.close()
        shutil.rmtree(d, ignore_errors=True)


def graphs(eb: int, ec: int, x1: bool, x2: bool, x3: bool, o1: int, o2: int,
           o3: int) -> bool:
    """
    pre: sl(eb=eb)
    pre: 0 <= eb < len(ATOMS_B) and 0 <= ec < len(ATOMS_C)
    pre: 0 <= o1 <= 2 and 0 <= o2 <= 2 and 0 <= o3 <= 2
    pre: ec != 0 or eb < 6
    pre: SLICE.get('full', True) or (o3 == 0 and o2 <= 1 and x3 == x1)
    post: _
    """
    eb, ec = fork_int(eb, 0, len(ATOMS_B) - 1), fork_int(ec, 0, len(ATOMS_C) - 1)
    o1, o2, o3 = fork_int(o1, 0, 2), fork_int(o2, 0, 2), fork_int(o3, 0, 2)
    x1, x2, x3 = fork_bool(x1), fork_bool(x2), fork_bool(x3)
    with concrete():
        return _graph_run(eb, ec, x1, x2, x3, o1, o2, o3)

"""C29 — manually set outputs behave like naturally completed outputs."""
from vf.api import Ob, sl, SLICE, concrete, fork_int, fork_bool
from vf import fx

from cylc.flow.cycling.integer import IntegerPoint
from cylc.flow.id import TaskTokens

META = dict(
    level='model_checking',
    text='Bounded symbolic execution of the real TaskPool.'
         'set_prereqs_and_outputs -> _set_outputs_itask / _set_prereqs_itask / '
         '_set_prereqs_tdef -> TaskEventsManager.process_message(forced) -> '
         'spawn_on_output on a real pool: which outputs (or none) are set, the '
         'state of the target (any of the 8 statuses, previously completed '
         'outputs, active or not yet spawned) and which prerequisites are '
         'named are symbolic. z3 decides on every path that the named outputs '
         'and their implied earlier outputs are complete afterwards (with no '
         'outputs: required + submitted, started, succeeded), that exactly '
         'the children of the newly completed outputs exist with the '
         'corresponding prerequisite satisfied, that the status is never '
         'moved to submitted or running, and that setting prerequisites '
         'satisfies only prerequisites the task has (an unrelated one changes '
         'nothing and spawns nothing) and makes it ready once all are set.',
    note='fixture "basic": target a@2 (children: succeeded -> c@2, b@3; '
         'x -> b@2) for outputs, b@2 (prerequisite a:x@2 | a@1) for '
         'prerequisites; 7 output selections, 5 prerequisite selections; DB '
         'history empty (no earlier flows); xtrigger prerequisites outside.',
    functions=['TaskPool.set_prereqs_and_outputs', '_set_outputs_itask',
               '_set_prereqs_itask', '_set_prereqs_tdef', '_get_valid_prereqs',
               '_standardise_outputs', '_standardise_prereqs', 'id_match',
               'TaskEventsManager.process_message (forced)',
               'TaskState.reset (forced)', 'TaskPool.spawn_on_output',
               'TaskProxy.force_satisfy'],
    bounds=['outputs: none | x | succeeded | failed | started | submitted | '
            'x,succeeded', 'target status: 8, x already complete or not, in '
            'pool or inactive', 'prerequisites: a:x@2 | a@1 | c@2 (not a '
            'prerequisite) | all | a@1 + a:x@2'],
    stubs=['pri_dao (no history)', 'data_store_mgr', 'workflow_db_mgr',
           'broadcast_mgr'],
    assumptions=[],
    outside=['flows other than the active one', 'setting xtrigger '
             'prerequisites (--pre=xtrigger)',
             'command validation layer (command_validation.py)'],
)

CFG = fx.cfg('basic')
ST = fx.STATUSES
OUTSEL = [[], ['x'], ['succeeded'], ['failed'], ['started'], ['submitted'],
          ['x', 'succeeded']]
MSG = {'x': 'xx'}
IMPLIED = {'succeeded': {'submitted', 'started'},
           'failed': {'submitted', 'started'},
           'started': {'submitted'}}
CHILDREN = {'succeeded': {('c', 2), ('b', 3)}, 'xx': {('b', 2)}}
ALLOUT = ['submitted', 'started', 'succeeded', 'failed', 'xx', 'expired',
          'submit-failed']


def _pool():
    pool = fx.pool(CFG, real_events=True)
    pool.task_events_mgr.spawn_func = pool.spawn_on_output
    return pool


def _set_outputs(oi, st, x_done, in_pool, xt=False):
    pool = _pool()
    a = fx.itask(CFG, 'a', 2)
    a.state.is_runahead = False
    if in_pool:
        pool.add_to_pool(a)
        a.state.status = ST[st]
        # outputs the status implies
        for m in {'submitted': ['submitted'], 'running': ['submitted',
                  'started'], 'succeeded': ['submitted', 'started',
                  'succeeded'], 'failed': ['submitted', 'started', 'failed'],
                  'submit-failed': ['submit-failed'], 'expired': ['expired'],
                  }.get(ST[st], []):
            a.state.outputs.set_message_complete(m)
        if x_done:
            a.state.outputs.set_message_complete('xx')
        if ST[st] not in ('waiting', 'expired'):
            # a job was prepared at least once: retry timers are armed
            from cylc.flow.task_job_mgr import TaskJobManager
            a.submit_num = 1
            TaskJobManager._set_retry_timers(a)
    if xt and in_pool:
        # the task also waits on an xtrigger (clock / retry) not yet satisfied
        a.state.xtriggers['clock'] = False
    before = {m for m in ALLOUT if in_pool and
              a.state.outputs.is_message_complete(m)}
    status0 = ST[st] if in_pool else 'waiting'
    sel = OUTSEL[oi]
    pool.set_prereqs_and_outputs(
        {TaskTokens(cycle='2', task='a')}, list(sel), [], [])
    want = set(before)
    names = sel or ['succeeded']       # default: required (= succeeded)
    for o in names:
        want.add(MSG.get(o, o))
        want |= IMPLIED.get(o, set())
    if in_pool:
        target = a
    else:
        target = None       # transient proxy: observe through its effects
    if target is not None:
        after = {m for m in ALLOUT
                 if target.state.outputs.is_message_complete(m)}
        if after != want:
            return False
        s = target.state.status
        if s in ('submitted', 'running') and s != status0:
            return False          # never moved into submitted / running
        if s == 'preparing' and status0 != 'preparing':
            return False
        if xt and s == 'waiting':
            # still waiting: setting outputs must not make the task itself
            # ready to run (its own xtrigger is still outstanding)
            if a.state.xtriggers.get('clock') is not False:
                return False
            if a.is_ready_to_run():
                return False
    newly = want - before
    kids = set()
    for m in newly:
        kids |= CHILDREN.get(m, set())
    got = {(t.tdef.name, int(t.point)) for t in pool.get_tasks()
           if t is not a}
    if not in_pool and 'succeeded' in newly:
        # completing a not-yet-spawned parentless task also brings its next
        # instance into the pool, as its natural run would have
        kids.add(('a', 3))
    if got != kids:
        return False
    for (n, p) in kids - {('a', 3)}:
        child = pool._get_task_by_id(f'{p}/{n}')
        # the prerequisite atom fed by this output is satisfied
        sat = [v for pre in child.state.prerequisites
               for k, v in pre._satisfied.items()
               if k.task == 'a' and k.point == '2' and k.output in newly]
        if not sat or not all(sat):
            return False
    # complete (succeeded) -> the target leaves the pool; else it stays
    if in_pool:
        inpool = any(t is a for t in pool.get_tasks())
        final = a.state.status in ('succeeded', 'failed', 'submit-failed',
                                   'expired')
        if inpool == (final and 'succeeded' in want):
            return False
    return True


def set_outputs(oi: int, st: int, x_done: bool, in_pool: bool,
                xt: bool) -> bool:
    """
    pre: 0 <= oi < len(OUTSEL) and 0 <= st < 8
    pre: st != 7 or not in_pool
    post: _
    """
    # (a succeeded task of this definition is complete, hence never pooled)
    oi, st = fork_int(oi, 0, len(OUTSEL) - 1), fork_int(st, 0, 7)
    x_done, in_pool, xt = fork_bool(x_done), fork_bool(in_pool), fork_bool(xt)
    with concrete():
        return _set_outputs(oi, st, x_done, in_pool, xt)


PRESEL = [['2/a:x'], ['1/a'], ['2/c'], ['all'], ['1/a', '2/a:x'],
          ['2/c', '2/a:x']]


def _set_prereqs(pi, in_pool):
    pool = _pool()
    b = fx.itask(CFG, 'b', 2)
    b.state.is_runahead = False
    if in_pool:
        pool.add_to_pool(b)
    sel = PRESEL[pi]
    pool.set_prereqs_and_outputs(
        {TaskTokens(cycle='2', task='b')}, [], list(sel), [])
    target = pool._get_task_by_id('2/b')
    valid = [s for s in sel if s != '2/c']
    if not valid:
        # not a prerequisite of b: nothing may change, nothing spawns
        if in_pool:
            return (target is b and not b.state.prerequisites_all_satisfied()
                    and len(pool.get_tasks()) == 1)
        return target is None and not pool.get_tasks()
    if target is None:
        return False
    if in_pool and target is not b:
        return False
    atoms = {(k.point, k.task, k.output): bool(v)
             for pre in target.state.prerequisites
             for k, v in pre._satisfied.items()}
    want = {('2', 'a', 'xx'): False, ('1', 'a', 'succeeded'): False}
    if 'all' in sel:
        want = {k: True for k in want}
    if '2/a:x' in sel:
        want[('2', 'a', 'xx')] = True
    if '1/a' in sel:
        want[('1', 'a', 'succeeded')] = True
    if atoms != want:
        return False
    # a:x | a[-P1] : one satisfied atom is enough -> ready to run
    target.state.is_runahead = False
    pool.queue_if_ready(target)
    return target.is_ready_to_run() and target.state.is_queued


def set_prereqs(pi: int, in_pool: bool) -> bool:
    """
    pre: 0 <= pi < len(PRESEL)
    post: _
    """
    pi, in_pool = fork_int(pi, 0, len(PRESEL) - 1), fork_bool(in_pool)
    with concrete():
        return _set_prereqs(pi, in_pool)


def OBLIGATIONS(tier):
    big = tier == 'thorough'
    t = 1200 if big else 160
    return [Ob('set_outputs', 'set_outputs', timeout=t),
            Ob('set_prereqs', 'set_prereqs', timeout=t)]


def VALIDATE():
    n = 0
    # tests/integration/scripts/test_set.py style literals
    assert _set_outputs(0, 0, False, True)
    assert _set_outputs(1, 0, False, True)
    assert _set_outputs(2, 5, True, True)
    assert _set_outputs(0, 0, False, False)
    assert _set_prereqs(0, True) and _set_prereqs(2, False)
    assert _set_prereqs(3, False)
    return n + 7

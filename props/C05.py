"""C05 — internal queue limits are never exceeded."""
from collections import Counter
from types import SimpleNamespace as NS

from vf.api import Ob, sl, slices, within, concrete, SLICE
from vf import fx

from cylc.flow.task_queues.independent import (
    LimitedTaskQueue, IndepQueueManager)

META = dict(
    level='model_checking',
    text='Bounded symbolic execution of the real queue code: '
         'LimitedTaskQueue.release/push_task/push_task_if_limited, '
         'IndepQueueManager construction (family expansion, last-listing-wins)'
         ' and the real TaskPool.release_queued_tasks/count_active_tasks on '
         'real TaskProxy objects; limits, active counts, statuses, held / '
         'queued / awaiting-prep bits and the queue-membership matrix are '
         'symbolic and z3 decides every path.',
    note='<= 4 queued tasks, limits 0..4, 3 queues x 3 listings (2 task '
         'names + 1 family of 2); data store stubbed; fixture task names. '
         'Manual-trigger bypass of limits is outside the claim.',
    functions=[
        'LimitedTaskQueue.push_task/push_task_if_limited/release/remove',
        'IndepQueueManager.__init__/_make_indep/release_tasks/push_task',
        'TaskQueueManagerBase._expand_families',
        'TaskPool.count_active_tasks/release_queued_tasks/queue_task',
    ],
    bounds=['limit in 0..4', 'active counts 0..4 per member',
            '<= 4 queued tasks, symbolic held bit and member name each',
            'pool of 3 (thorough: 2..4) members of one limited queue plus one task of another queue; per member a symbolic state out of 9 (waiting plain/queued/queued+held/held/awaiting-prep, preparing, submitted, running, succeeded); limit 0..2 (thorough 0..3)',
            'membership matrix: 3 custom queues x {a, b, FAM={d,e}} listing bits (+ d in the last), all 2^10 combinations'],
    stubs=['data_store_mgr (recording stub)', 'workflow_db_mgr (stub)',
           'task_events_mgr (stub)', 'xtrigger_mgr (stub)'],
    assumptions=['"default" is the first key of the queues configuration '
                 '(true of every parsec-produced config; checked on the '
                 'fixture each run)'],
    outside=['manual trigger (queue_or_trigger) may exceed a limit by design',
             'event orders over whole runs'],
)


def mk(name, held):
    return NS(tdef=NS(name=name), state=NS(is_held=held))


def release(limit: int, a_act: int, b_act: int, n: int, h0: bool, h1: bool,
            h2: bool, h3: bool, m0: bool, m1: bool, m2: bool, m3: bool) -> bool:
    """
    pre: 0 <= limit <= 4 and 0 <= a_act <= 4 and 0 <= b_act <= 4 and 0 <= n <= 4
    post: _
    """
    q = LimitedTaskQueue(limit, {'a', 'b'})
    helds = [h0, h1, h2, h3][:n]
    names = ['a' if m else 'b' for m in [m0, m1, m2, m3][:n]]
    tasks = [mk(nm, h) for nm, h in zip(names, helds)]
    for t in tasks:
        q.push_task(t)          # queued in order tasks[0], tasks[1], ...
    q.push_task(mk('zz', False))  # not a member: must not be queued
    active = Counter({'a': a_act, 'b': b_act, 'c': 7})
    n_active = a_act + b_act
    released = q.release(active)
    nonheld = [t for t in tasks if not t.state.is_held]
    if limit == 0:
        want = nonheld
    else:
        want = nonheld[:max(0, limit - n_active)]
    ok = len(released) == len(want) and all(
        r is w for r, w in zip(released, want))
    # never over the limit
    if limit:
        ok = ok and (n_active >= limit or n_active + len(released) <= limit)
    # nothing lost or duplicated
    rest = list(q.deque)
    ok = ok and len(rest) + len(released) == n and all(
        any(t is r for r in rest) != any(t is r for r in released)
        for t in tasks)
    # counter updated for released members only
    ok = ok and active['a'] + active['b'] == n_active + len(released)
    ok = ok and active['c'] == 7
    return ok


def fifo2(limit: int, act: int, h0: bool, h1: bool, h2: bool, h3: bool,
          done: int) -> bool:
    """
    pre: 1 <= limit <= 3 and 0 <= act <= 3 and 0 <= done <= 3
    post: _
    """
    # two consecutive release calls with `done` active tasks finishing in
    # between: tasks never held keep their queue order
    q = LimitedTaskQueue(limit, {'a'})
    tasks = [mk('a', h) for h in (h0, h1, h2, h3)]
    for t in tasks:
        q.push_task(t)
    active = Counter({'a': act})
    r1 = q.release(active)
    if done > active['a']:
        return True
    active['a'] -= done
    r2 = q.release(active)
    order = [i for t in r1 + r2 for i, u in enumerate(tasks) if u is t]
    nonheld = [i for i, t in enumerate(tasks) if not t.state.is_held]
    return (order == nonheld[:len(order)]
            and (active['a'] <= limit or len(r2) == 0))


def if_limited(limit: int, a_act: int, b_act: int, member: bool) -> bool:
    """
    pre: 0 <= limit <= 4 and 0 <= a_act <= 4 and 0 <= b_act <= 4
    post: _
    """
    q = LimitedTaskQueue(limit, {'a', 'b'})
    t = mk('a' if member else 'c', False)
    got = q.push_task_if_limited(t, Counter({'a': a_act, 'b': b_act, 'c': 9}))
    want = limit != 0 and a_act + b_act >= limit and member
    return got == want and (len(q.deque) == 1) == want


NAMES = ['a', 'b', 'c', 'd', 'e']
DESC = {'root': ['FAM', 'a', 'b', 'c', 'd', 'e'], 'FAM': ['d', 'e']}


def membership(s1: int, a2: bool, b2: bool, f2: bool, a3: bool, b3: bool,
               f3: bool, d3: bool, l1: int, l2: int) -> bool:
    """
    pre: sl(s1=s1)
    pre: 0 <= s1 < 8 and 0 <= l1 <= 3 and 0 <= l2 <= 3
    post: _
    """
    def listing(a, b, f, d=False):
        out = []
        if a:
            out.append('a')
        if b:
            out.append('b')
        if f:
            out.append('FAM')
        if d:
            out.append('d')
        return out
    m1 = listing(s1 & 1 != 0, s1 & 2 != 0, s1 & 4 != 0)
    m2, m3 = listing(a2, b2, f2), listing(a3, b3, f3, d3)
    qconfig = {
        'default': {'limit': 0, 'members': []},
        'q1': {'limit': l1, 'members': m1},
        'q2': {'limit': l2, 'members': m2},
        'q3': {'limit': 1, 'members': m3},
    }
    mgr = IndepQueueManager(qconfig, list(NAMES), DESC)

    def expand(m):
        out = set()
        for x in m:
            out |= set(DESC.get(x, [x]))
        return out
    e1, e2, e3 = expand(m1), expand(m2), expand(m3)
    for name in NAMES:
        inq = [q for q, lq in mgr.queues.items() if name in lq.members]
        want = ('q3' if name in e3 else 'q2' if name in e2
                else 'q1' if name in e1 else 'default')
        if inq != [want]:
            return False
    return (mgr.queues['q1'].limit == l1 and mgr.queues['q2'].limit == l2)


# --- the real pool: count_active_tasks + release_queued_tasks --------------
CFG = fx.cfg('queues')
# per-task state: (status, queued, held, waiting_on_job_prep) - the
# combinations the scheduler can produce for a pooled task
PSTATES = [
    ('waiting', False, False, False),
    ('waiting', True, False, False),
    ('waiting', True, True, False),
    ('waiting', False, True, False),
    ('waiting', False, False, True),
    ('preparing', False, False, False),
    ('submitted', False, False, False),
    ('running', False, False, False),
    ('succeeded', False, False, False),
]
PNAMES = ['b', 'd', 'e', 'b']     # all members of q2 = {b, d, e}


def pool_release(lim2: int, s0: int, s1: int, s2: int, s3: int,
                 n: int) -> bool:
    """
    pre: sl(lim2=lim2, n=n)
    pre: 0 <= lim2 <= 3 and 2 <= n <= 4
    pre: 0 <= s0 < 9 and 0 <= s1 < 9 and 0 <= s2 < 9 and 0 <= s3 < 9
    post: _
    """
    with concrete():
        nn = SLICE.get('n', 3)
        pool = fx.pool(CFG)
        qs = pool.task_queue_mgr.queues
        # a queued task of another queue (q1, limit 2): always released
        other = fx.itask(CFG, 'a', 1)
        other.state.is_runahead = False
        pool.add_to_pool(other)
        pool.queue_task(other)
        tasks = []
        for i, nm in enumerate(PNAMES[:nn]):
            it = fx.itask(CFG, nm, i + 1)
            it.state.is_runahead = False
            pool.add_to_pool(it)
            tasks.append(it)
    if n != nn:
        return True
    qs['q2'].limit = lim2
    for it, s in zip(tasks, (s0, s1, s2, s3)):
        status, q, h, w = PSTATES[s]
        it.state.status = status
        it.state.is_held = h
        it.waiting_on_job_prep = w
        if q:
            pool.queue_task(it)

    def active(it):
        return it.waiting_on_job_prep or it.state.status in (
            'preparing', 'submitted', 'running')
    before = sum(1 for t in tasks if active(t))
    queued_before = [t for t in tasks if t.state.is_queued]
    preprep_before = [t for t in tasks if t.waiting_on_job_prep]
    out = pool.release_queued_tasks()
    rel = [t for t in queued_before if not t.state.is_queued]
    after = sum(1 for t in tasks if active(t))
    if after != before + len(rel):
        return False
    if lim2:
        if before >= lim2 and rel:
            return False
        if before < lim2 and after > lim2:
            return False
    # FIFO among non-held queued members; a non-held queued member is left
    # behind only if the queue is at its limit
    cand = [t for t in queued_before if not t.state.is_held]
    if len(rel) > len(cand) or any(
            r is not c for r, c in zip(rel, cand)):
        return False
    if len(rel) < len(cand) and not (lim2 and after >= lim2):
        return False
    for t in rel:
        if t.state.is_held or not t.waiting_on_job_prep:
            return False
    if other.state.is_queued or not other.waiting_on_job_prep:
        return False
    want = [other] + rel + preprep_before
    return len(out) == len(want) and all(
        any(o is t for o in out) for t in want)


def OBLIGATIONS(tier):
    big = tier == 'thorough'
    t = 1200 if big else 150
    obs = [Ob('release', 'release', timeout=t),
           Ob('fifo2', 'fifo2', timeout=t),
           Ob('if_limited', 'if_limited', timeout=t),
           ] + slices('membership', 'membership', 's1', range(8), timeout=t)
    for n in (2, 3, 4) if big else (3,):
        for l2 in (0, 1, 2, 3) if big else (0, 1, 2):
            obs.append(Ob(f'pool_release[n={n},lim2={l2}]',
                          'pool_release', timeout=t,
                          slice={'lim2': l2, 'n': n}))
    return obs


def VALIDATE():
    n = 0
    assert list(CFG.cfg['scheduling']['queues'])[0] == 'default'
    qs = fx.pool(CFG).task_queue_mgr.queues
    assert qs['q1'].members == {'a'} and qs['q2'].members == {'b', 'd', 'e'}
    n += 2
    # tests/unit/test_task_queues style literals
    assert release(2, 1, 0, 3, False, True, False, False, True, True, False,
                   False)
    assert release(0, 4, 4, 4, False, False, True, False, True, False, True,
                   False)
    assert fifo2(1, 1, False, False, True, False, 1)
    assert if_limited(2, 1, 1, True) and if_limited(0, 4, 4, True)
    assert membership(3, False, True, True, True, False, True, True, 2, 1)
    n += 6
    import itertools
    for st in itertools.product(range(9), repeat=3):
        assert pool_release(2, st[0], st[1], st[2], 0, 3), st
        n += 1
    return n

"""C26 — task pool bookkeeping is internally consistent."""
from vf.api import Ob, sl, SLICE, concrete, fork_int
from vf import fx

from cylc.flow.cycling.integer import IntegerPoint

META = dict(
    level='model_checking',
    text='Bounded symbolic execution of the real TaskPool.add_to_pool / '
         'remove / get_tasks / get_task / _get_task_by_id / get_task_ids / '
         'get_tasks_by_point over symbolic operation sequences (which task '
         'instance is added or removed, whether the cached task list is read '
         'in between): after every step the pool has no duplicate '
         '(point, name), no empty point bucket, the cached list equals the '
         'flattened map, every lookup agrees with a reference set, and a '
         'removed task is marked transient and leaves its queue; and the rows '
         'the real WorkflowDatabaseManager.put_task_pool queues after every '
         'step (adds, removals, flow merges, holds), applied to a model of '
         'the task_pool table (delete-all + insert-or-replace on the primary '
         'key), leave the table equal to the pool.',
    note='2 task names x 2 cycle points, sequences of 3 (thorough 4) '
         'operations from an empty pool; data store / DB / xtrigger manager '
         'are stubs; tasks are not runahead-limited (removal then spawns no '
         'successor); the task_pool table is a dictionary model keyed by its primary key (sqlite itself: C21).',
    functions=['TaskPool.add_to_pool', 'TaskPool.remove', 'TaskPool.get_tasks',
               'TaskPool.get_task', 'TaskPool._get_task_by_id',
               'TaskPool.get_task_ids', 'TaskPool.get_tasks_by_point',
               'TaskPool.release_held_active_task', 'TaskPool.merge_flows',
               'WorkflowDatabaseManager.put_task_pool'],
    bounds=['operations: add / remove of instance (name in {b, c}, point in '
            '{1, 2}), optional get_tasks() read after each; length 3 quick / '
            '4 thorough; a second TaskProxy object for the same identity is '
            'used for duplicate adds'],
    stubs=['data_store_mgr', 'workflow_db_mgr', 'task_events_mgr',
           'xtrigger_mgr (real, on stub scheduler)'],
    assumptions=[],
    outside=['sqlite execution of the queued statements (C21)',
             'spawn_next_parentless on removal of runahead tasks (C04/C07)'],
)

CFG = fx.cfg('basic')
NAMES = ['b', 'c']
POINTS = [1, 2]


def invariant(pool, model, tasks):
    at = pool.active_tasks
    seen = set()
    flat = []
    for point, bucket in at.items():
        if not bucket:
            return False                      # empty bucket
        for ident, it in bucket.items():
            if ident != it.identity or it.point != point:
                return False
            if ident in seen:
                return False                  # duplicate
            seen.add(ident)
            flat.append(it)
    if seen != {f'{p}/{n}' for (p, n) in model}:
        return False
    got = pool.get_tasks()
    if len(got) != len(flat) or any(a is not b for a, b in zip(got, flat)):
        return False
    if pool.get_task_ids() != seen:
        return False
    for n in NAMES:
        for p in POINTS:
            want = (p, n) in model
            t1 = pool.get_task(IntegerPoint(str(p)), n)
            t2 = pool._get_task_by_id(f'{p}/{n}')
            if (t1 is not None) != want or (t2 is not None) != want:
                return False
            if want and (t1 is not t2 or t1 is not model[(p, n)]):
                return False
    byp = pool.get_tasks_by_point()
    if sorted(str(k) for k in byp) != sorted({str(p) for p, _ in model}):
        return False
    return True


def ops(o1: int, o2: int, o3: int, o4: int) -> bool:
    """
    pre: sl(o1=o1)
    pre: 0 <= o1 < 16 and 0 <= o2 < 16 and 0 <= o3 < 16 and 0 <= o4 < 16
    post: _
    """
    with concrete():
        pool = fx.pool(CFG)
        objs = {}
        for n in NAMES:
            for p in POINTS:
                for dup in (0, 1):
                    it = fx.itask(CFG, n, p)
                    it.state.is_runahead = False
                    objs[(p, n, dup)] = it
        nops = SLICE.get('nops', 3)
    model = {}
    for o in (o1, o2, o3, o4)[:nops]:
        o = fork_int(o, 0, 15)
        kind, ni, pi, read = o & 1, (o >> 1) & 1, (o >> 2) & 1, (o >> 3) & 1
        key = (POINTS[pi], NAMES[ni])
        if kind == 0:
            # add: a fresh proxy, or a second object with the same identity
            it = objs[key + (1 if key in model else 0,)]
            pool.add_to_pool(it)
            model.setdefault(key, it)
        else:
            it = model.get(key, objs[key + (0,)])
            was_in = key in model
            if was_in:
                pool.queue_task(it)
            pool.remove(it)
            model.pop(key, None)
            if was_in and (not it.transient or it.state.is_queued and any(
                    t is it for q in pool.task_queue_mgr.queues.values()
                    for t in q.deque)):
                return False
        if read:
            pool.get_tasks()
        if not invariant(pool, model, objs):
            return False
    return True


# --- the task_pool table written by put_task_pool ---------------------------
def _apply(mgr, table):
    """Model of how the queued operations reach the task_pool table:
    deletes first ({} = every row), then INSERT OR REPLACE on the primary key
    (cycle, name, flow_nums) - as CylcWorkflowDAO does (C21 covers the DAO)."""
    T = mgr.TABLE_TASK_POOL
    for where in mgr.db_deletes_map[T]:
        for key in list(table):
            row = table[key]
            if all(row[k] == v for k, v in where.items()):
                del table[key]
    for row in mgr.db_inserts_map[T]:
        table[(row['cycle'], row['name'], row['flow_nums'])] = dict(row)
    for m in (mgr.db_deletes_map, mgr.db_inserts_map, mgr.db_updates_map):
        for lst in m.values():
            del lst[:]


def db_table(o1: int, o2: int, o3: int, o4: int) -> bool:
    """
    pre: sl(o1=o1)
    pre: 0 <= o1 < 8 and 0 <= o2 < 8 and 0 <= o3 < 8 and 0 <= o4 < 8
    post: _
    """
    from cylc.flow.workflow_db_mgr import WorkflowDatabaseManager
    from cylc.flow.util import serialise_set
    with concrete():
        pool = fx.pool(CFG)
        mgr = WorkflowDatabaseManager()
        mgr.pri_dao = mgr.pub_dao = None     # nothing reaches sqlite
        dao = pool.workflow_db_mgr.pri_dao
        pool.workflow_db_mgr = mgr
        objs = {}
        for n in NAMES:
            it = fx.itask(CFG, n, 1)
            it.state.is_runahead = False
            objs[n] = it
        nops = SLICE.get('nops', 3)
    table = {}
    for o in (o1, o2, o3, o4)[:nops]:
        o = fork_int(o, 0, 7)
        it = objs[NAMES[o & 1]]
        kind = o >> 1
        inpool = any(t is it for t in pool.get_tasks())
        if kind == 0:
            pool.add_to_pool(it)
        elif kind == 1:
            pool.remove(it)
        elif kind == 2:
            if inpool:
                with concrete():
                    new = {2}
                pool.merge_flows(it, new)
        else:
            if inpool:
                pool.hold_active_task(it)
        # the scheduler's main loop: put_task_pool, then process queued ops
        mgr.put_task_pool(pool)
        _apply(mgr, table)
        want = {(str(t.point), t.tdef.name, serialise_set(t.flow_nums)):
                (t.state.status, t.state.is_held) for t in pool.get_tasks()}
        got = {k: (r['status'], bool(r['is_held'])) for k, r in table.items()}
        if got != want:
            return False
    return True


def OBLIGATIONS(tier):
    big = tier == 'thorough'
    t = 1500 if big else 150
    return [Ob(f'ops[o1={o1}]', 'ops', timeout=t, twin=(o1 == 0),
               slice={'o1': o1, 'nops': 4 if big else 3})
            for o1 in range(16)] + [
        Ob(f'db_table[o1={o1}]', 'db_table', timeout=t, twin=(o1 == 0),
           slice={'o1': o1, 'nops': 4 if big else 3}) for o1 in range(8)]


def VALIDATE():
    n = 0
    SLICE.update(nops=4)
    for seq in ((0, 0, 1, 0), (8, 2, 9, 1), (0, 4, 5, 1), (1, 0, 8, 9),
                (2, 10, 3, 11)):
        SLICE['o1'] = seq[0]
        assert ops(*seq), seq
        n += 1
    for seq in ((0, 4, 6, 2), (0, 1, 4, 5), (1, 3, 5, 7)):
        SLICE['o1'] = seq[0]
        assert db_table(*seq), seq
        n += 1
    SLICE.clear()
    return n

"""C25 — the published data store reflects the task pool."""
import asyncio
import copy
import json
import shutil
import tempfile
from copy import deepcopy

from vf.api import Ob, sl, SLICE, concrete, fork_int, fork_bool, kf
from vf import fx
from vf.sim import Sim

from cylc.flow import commands
from cylc.flow.data_store_mgr import (
    DATA_TEMPLATE, EDGES, JOBS, TASK_PROXIES, WORKFLOW, apply_delta,
    generate_checksum)
from cylc.flow.id import TaskTokens

META = dict(
    level='model_checking',
    technique='bounded symbolic execution (CrossHair + z3) over symbolic '
              'completion orders, output bits, a command kind and the '
              'main-loop pass at which it arrives (the solver certifies that '
              'every combination in the bounded family was generated); each '
              'run drives the real DataStoreMgr next to the real pool and a '
              'client that applies the published deltas',
    text='Whole runs of fixture run2 are played by the main-loop stand-in '
         'vf.sim.Sim with the REAL DataStoreMgr attached to the real TaskPool '
         '/ TaskEventsManager (increment_graph_window, delta_task_*, '
         'insert_job, update_data_structure, prune_data_store, '
         'update_family_proxies, batch_deltas, apply_delta_batch, '
         'apply_delta_checksum, get_publish_deltas). A client store starts '
         'from get_entire_workflow() and applies every published delta in '
         'order with the real apply_delta. At a symbolic main-loop pass one '
         'command arrives: hold, release, n-window resize to 0 or 2, remove, '
         'trigger, set outputs, a reload (initiate_data_model(reloaded), '
         'TaskPool.reload, apply_task_proxy_db_history), or job-preparation '
         'failures (waiting -> preparing -> waiting within one pass). After every '
         'update_data_structure z3 decides on every path that every pooled '
         'task appears in the store with the same status, held / queued / '
         'runahead flags, flow numbers, completed outputs and prerequisite '
         'satisfaction, that the client holds exactly the scheduler\'s data '
         '(every element of every type equal, message by message), and that '
         'the checksums sent with the deltas match the client\'s data.',
    note='job preparation and messages are played by the stand-in (the '
         'jobs inserted into the store come from the real '
         'TaskEventsManager._insert_task_job); xtriggers, broadcasts and the '
         'GraphQL resolvers are outside.',
    functions=['DataStoreMgr.initiate_data_model', 'increment_graph_window',
               'generate_ghost_task', 'delta_task_state / _held / _flow_nums '
               '/ _output(s) / _prerequisite', 'insert_job',
               'update_data_structure', 'prune_data_store',
               'update_family_proxies', 'update_workflow', 'batch_deltas',
               'apply_delta', 'apply_delta_checksum', 'get_publish_deltas',
               'get_entire_workflow', 'set_graph_window_extent / '
               'window_resize_rewalk', 'apply_task_proxy_db_history'],
    bounds=['fixture run2 (two cycle points, 10 instances), 4 order choices '
            'of 3 alternatives, x bit, 10 command kinds at pass 0..5'],
    stubs=['job preparation / submission / messages played by vf.sim.Sim',
           'broadcast_mgr', 'proc_pool', 'scheduler stand-in (status fields)'],
    assumptions=['the client clears an element type when a delta carries the '
                 'reloaded flag (as cylc-uiserver does) and otherwise applies '
                 'deltas with cylc.flow.data_store_mgr.apply_delta'],
    outside=['GraphQL resolvers / subscriptions', 'xtrigger and broadcast '
             'deltas', 'job log and time fields'],
)

CFG = fx.cfg('run2')
_NEWCFG = []


def newcfg():
    if not _NEWCFG:
        _NEWCFG.append(fx.cfg.__wrapped__('run2'))
    return _NEWCFG[0]


class Client:
    def __init__(self, ds):
        self.ds = ds
        self.data = deepcopy(DATA_TEMPLATE)
        msg = ds.get_entire_workflow()
        self.data[WORKFLOW].CopyFrom(msg.workflow)
        for key in self.data:
            if key != WORKFLOW:
                for e in getattr(msg, key):
                    self.data[key][e.id] = copy.deepcopy(e)
        self.ok = True

    def pump(self):
        ds = self.ds
        if not ds.publish_pending:
            return
        ds.publish_pending = False
        for topic, delta, _ in ds.publish_deltas:
            key = topic.decode()
            if key == 'all':
                continue
            delta = copy.deepcopy(delta)
            if getattr(delta, 'reloaded', False):
                # cylc-uiserver: DataStoreMgr._clear_data_field
                if key == WORKFLOW:
                    self.data[key].Clear()
                else:
                    self.data[key].clear()
            apply_delta(key, delta, self.data)
            if key != WORKFLOW and hasattr(delta, 'checksum'):
                att = 'id' if key == EDGES else 'stamp'
                if delta.checksum != generate_checksum(
                        [getattr(e, att) for e in self.data[key].values()]):
                    self.ok = False

    def same_as_scheduler(self):
        data = self.ds.data[self.ds.workflow_id]
        for key in data:
            if key == WORKFLOW:
                if data[key] != self.data[key]:
                    return False
                continue
            if set(data[key]) != set(self.data[key]):
                return False
            for i, e in data[key].items():
                if e != self.data[key][i]:
                    return False
        return self.ok


def pool_in_store(sim):
    data = sim.ds.data[sim.ds.workflow_id][TASK_PROXIES]
    for t in sim.pool.get_tasks():
        tp = data.get(sim.ds.id_.duplicate(t.tokens).id)
        if tp is None:
            return False
        if tp.state != t.state.status:
            return False
        if (tp.is_held, tp.is_queued, tp.is_runahead) != (
                t.state.is_held, t.state.is_queued, t.state.is_runahead):
            return False
        if json.loads(tp.flow_nums) != sorted(t.flow_nums):
            return False
        if {k: o.satisfied for k, o in tp.outputs.items()} != {
                trig: done for trig, _m, done in t.state.outputs}:
            return False
        if sorted(p.satisfied for p in tp.prerequisites) != sorted(
                bool(p.is_satisfied()) for p in t.state.prerequisites):
            return False
    return True


def command(sim, kind, client):
    pool, ds = sim.pool, sim.ds
    ids = {TaskTokens('1', n) for n in 'abcde'}
    if kind == 1:
        pool.hold_tasks(ids)
    elif kind == 2:
        pool.hold_tasks(ids)
        sim.flush()
        client.pump()
        pool.release_held_tasks(ids)
    elif kind == 3:
        ds.set_graph_window_extent(0)
    elif kind == 4:
        ds.set_graph_window_extent(2)
    elif kind == 5:
        commands._remove_matched_tasks(
            sim.schd, {TaskTokens('2', 'a')}, set())
    elif kind == 6:
        async def go():
            gen = commands.force_trigger_tasks(sim.schd, ['1/e'], [])
            await gen.__anext__()
            try:
                await gen.__anext__()
            except StopAsyncIteration:
                pass
        asyncio.run(go())
    elif kind == 7:
        pool.set_prereqs_and_outputs({TaskTokens('2', 'd')}, [], [], [])
    elif kind == 9:
        # the next submission of these fails during job preparation: with
        # submission retries configured the task goes waiting -> preparing
        # -> waiting inside one main-loop pass
        sim.submit_fail |= {'1/a', '2/a', '1/d', '2/d'}
    elif kind == 8:
        # commands.reload_workflow, the data-store part
        new = newcfg()
        sim.schd.config = new
        ds.initiate_data_model(True)
        pool.reload(new)
        ds.apply_task_proxy_db_history()
        sim.db.pri_dao.select_jobs_for_restart(ds.insert_db_job)
        if pool.compute_runahead(force=True):
            pool.release_runahead_tasks()


def _run(choices, x1, kind, at):
    d = tempfile.mkdtemp(prefix='cylc-verif-c25-')
    sim = Sim(CFG, d, real_ds=True)
    try:
        client = Client(sim.ds)
        sim.on_publish = client.pump
        sim.cold_start()
        client.pump()
        if not (pool_in_store(sim) and client.same_as_scheduler()):
            return False
        ci = iter(choices)
        for step in range(16):
            if step == at and kind:
                command(sim, kind, client)
                sim.flush()
                client.pump()
                if not (pool_in_store(sim) and client.same_as_scheduler()):
                    return False
            sim.loop()
            client.pump()
            if not (pool_in_store(sim) and client.same_as_scheduler()):
                return False
            act = sim.active()
            if not act:
                if step > at:
                    break
                continue
            t = act[next(ci, 0) % len(act)]
            outs = ['xx'] if (t.tdef.name == 'a' and int(t.point) == 1
                              and x1) else []
            sim.finish(t, outputs=outs)
        return True
    finally:
        sim.schd.config = CFG
        sim.close()
        shutil.rmtree(d, ignore_errors=True)


def run(c1: int, c2: int, c3: int, c4: int, x1: bool, kind: int,
        at: int) -> bool:
    """
    pre: sl(kind=kind)
    pre: 0 <= c1 <= 2 and 0 <= c2 <= 2 and 0 <= c3 <= 2 and 0 <= c4 <= 2
    pre: 0 <= kind <= 9 and 0 <= at <= 5
    pre: kind != 0 or at == 0
    pre: SLICE.get('full', True) or (c4 == 0 and at in (0, 2, 4))
    pre: not kf('C25.run', kind=kind, at=at, x1=x1)
    post: _
    """
    cs = [fork_int(c, 0, 2) for c in (c1, c2, c3, c4)]
    x1 = fork_bool(x1)
    kind, at = fork_int(kind, 0, 9), fork_int(at, 0, 5)
    with concrete():
        return _run(cs, x1, kind, at)


def OBLIGATIONS(tier):
    big = tier == 'thorough'
    t = 2400 if big else 170
    return [Ob(f'run[command={k}]', 'run', timeout=t, twin=(k == 0),
               slice={'kind': k, 'full': big}) for k in range(10)]


def VALIDATE():
    n = 0
    assert _run([0, 0, 0, 0], False, 0, 0)
    assert _run([1, 2, 0, 1], True, 1, 2)
    return n + 2

"""C11 — completion: tasks are retained exactly when incomplete."""
import itertools
from types import SimpleNamespace as NS

from vf.api import Ob, sl, concrete, SLICE, within
from vf import fx

from cylc.flow.task_outputs import (
    FINAL_OUTPUT_COMPLETION, TaskOutputs, get_completion_expression)

META = dict(
    level='model_checking',
    text='(a) z3 proves, for every valid optionality declaration of the six '
         'standard outputs plus two custom outputs (1350 declarations), that '
         'the expression returned by the real get_completion_expression is '
         'logically equivalent to the documented rule (one unsat query per '
         'declaration, all truth assignments at once). (b) bounded symbolic '
         'execution of the real TaskOutputs.is_complete (restricted '
         'evaluator) and TaskPool.remove_if_complete with symbolic completion '
         'bits / status: removal iff final status and expression true.',
    note='Custom outputs limited to two; user completion expressions: the '
         'and/or trees listed in evidence (<= 4 variables); the graph parser '
         'that produces the declarations is covered by C14/C15 not here; '
         'pool.remove is the real method, data store / DB stubbed.',
    functions=['get_completion_expression', 'TaskOutputs.__init__/add/'
               'set_message_complete/is_complete', 'CompletionEvaluator '
               '(restricted_evaluator._eval)', 'TaskPool.remove_if_complete',
               'TaskPool.remove', 'TaskPool.spawn_on_output (removal of the '
               'parent on every path: flow-wait, no-flow, transient)'],
    bounds=['all 1350 valid declarations over succeeded/failed/submitted/'
            'submit-failed/expired/started + custom x,y (required / optional '
            '/ unreferenced)',
            'is_complete: 8 symbolic completion bits on 14 (thorough 60) '
            'representative declarations and 6 user expressions',
            'remove_if_complete: all 8 statuses x 4 symbolic output bits'],
    stubs=['data_store_mgr', 'workflow_db_mgr', 'task_events_mgr',
           'xtrigger_mgr'],
    assumptions=['declarations obey the graph parser rules (opposite outputs '
                 'both optional if both used; expired / submit-failed never '
                 'required)', 'not Cylc 7 back-compat mode'],
    outside=['logging of incomplete tasks', 'config-level validation (C12)'],
)

STD = ['expired', 'submitted', 'submit-failed', 'started', 'succeeded',
       'failed']
MSG = {'expired': 'expired', 'submitted': 'submitted',
       'submit-failed': 'submit-failed', 'started': 'started',
       'succeeded': 'succeeded', 'failed': 'failed', 'x': 'xx', 'y': 'yy'}
TRIGGERS = STD + ['x', 'y']


def declarations():
    sf = [(True, None), (False, None), (None, True), (None, False),
          (False, False)]
    ss = [(None, None), (True, None), (False, None), (None, False),
          (False, False)]
    for (suc, fail), (sub, subf), exp, sta, x, y in itertools.product(
            sf, ss, (None, False), (None, True, False), (None, True, False),
            (None, True, False)):
        yield {'succeeded': suc, 'failed': fail, 'submitted': sub,
               'submit-failed': subf, 'expired': exp, 'started': sta,
               'x': x, 'y': y}


DECLS = list(declarations())


def mk_tdef(decl, completion=None):
    return NS(rtconfig={'completion': completion},
              outputs={t: (MSG[t], decl[t]) for t in TRIGGERS})


def spec_py(decl, done):
    """The documented default completion rule, evaluated in Python."""
    req = [t for t in TRIGGERS if decl[t] is True]
    succ_opt = decl['succeeded'] is False or decl['failed'] is False
    sub_opt = decl['submitted'] is False or decl['submit-failed'] is False
    exp_opt = decl['expired'] is False
    main = all(done[t] for t in req)
    if succ_opt:
        main = (main and done['succeeded']) or done['failed']
    return bool(main or (sub_opt and done['submit-failed'])
                or (exp_opt and done['expired']))


def smt_default_expression(slc):
    """z3: real default expression == documented rule, per declaration."""
    import z3
    from vf.smtx import py_bool_to_z3, Session
    ses = Session()
    v = {t.replace('-', '_'): z3.Bool(t.replace('-', '_')) for t in TRIGGERS}
    for i, decl in enumerate(DECLS):
        expr = get_completion_expression(mk_tdef(decl))
        # (TaskOutputs.is_complete falls back to "any final output" for an
        # empty expression)
        f, env = py_bool_to_z3(expr or FINAL_OUTPUT_COMPLETION, dict(v))
        if set(env) - set(v):
            return ses.result('harness_error',
                              message=f'unknown names in {expr!r}')
        d = {t: v[t.replace('-', '_')] for t in TRIGGERS}
        req = [d[t] for t in TRIGGERS if decl[t] is True]
        succ_opt = decl['succeeded'] is False or decl['failed'] is False
        main = z3.And(*req) if req else z3.BoolVal(True)
        if succ_opt:
            main = z3.Or(z3.And(main, d['succeeded']), d['failed'])
        parts = [main]
        if decl['submitted'] is False or decl['submit-failed'] is False:
            parts.append(d['submit-failed'])
        if decl['expired'] is False:
            parts.append(d['expired'])
        spec = z3.Or(*parts)
        r, model = ses.check(f != spec, label=f'decl#{i} {expr}')
        if r == 'sat':
            bits = [bool(model.eval(d[t], model_completion=True))
                    for t in TRIGGERS]
            return ses.result(
                'sat', message=f'declaration {decl}: {expr!r} differs from '
                f'the documented rule at {dict(zip(TRIGGERS, bits))}',
                call={'fn': 'replay_default', 'args': [i] + bits},
                programs=i + 1)
        if r != 'unsat':
            return ses.result('unknown', message=f'decl#{i}: {r}')
    return ses.result('unsat', programs=len(DECLS))


def replay_default(i, *bits) -> bool:
    decl = DECLS[i]
    done = dict(zip(TRIGGERS, bits))
    to = TaskOutputs(mk_tdef(decl))
    for t in TRIGGERS:
        if done[t]:
            to.set_message_complete(MSG[t])
    return bool(to.is_complete()) == spec_py(decl, done)


# representative declarations for the symbolic-execution plumbing check
def _pick(n):
    step = max(1, len(DECLS) // n)
    return list(range(0, len(DECLS), step))[:n]


USER_EXPRS = [
    'succeeded',
    'succeeded or failed',
    '(succeeded and x) or (failed and y)',
    'succeeded and (x or y)',
    '(succeeded and x and y) or expired',
    'succeeded or submit_failed or expired',
    '',          # blank: removed task -> any final output completes it
]


def is_complete(di: int, e: bool, sb: bool, sf: bool, st: bool, su: bool,
                fa: bool, x: bool, y: bool) -> bool:
    """
    pre: sl(di=di)
    pre: 0 <= di < len(DECLS)
    post: _
    """
    with concrete():
        decl = DECLS[SLICE.get('di', 0)]
        to = TaskOutputs(mk_tdef(decl))
    if di != SLICE.get('di', 0):
        return True
    done = dict(zip(TRIGGERS, (e, sb, sf, st, su, fa, x, y)))
    for t in TRIGGERS:
        if done[t]:
            to.set_message_complete(MSG[t])
    return bool(to.is_complete()) == spec_py(decl, done)


def user_expr(ui: int, e: bool, sb: bool, sf: bool, st: bool, su: bool,
              fa: bool, x: bool, y: bool) -> bool:
    """
    pre: sl(ui=ui)
    pre: 0 <= ui < len(USER_EXPRS)
    post: _
    """
    with concrete():
        src = USER_EXPRS[SLICE.get('ui', 0)]
        to = TaskOutputs(mk_tdef(DECLS[0], completion=src or None))
        if not src:
            to._completion_expression = ''
    if ui != SLICE.get('ui', 0):
        return True
    done = dict(zip(TRIGGERS, (e, sb, sf, st, su, fa, x, y)))
    for t in TRIGGERS:
        if done[t]:
            to.set_message_complete(MSG[t])
    env = {t.replace('-', '_'): done[t] for t in TRIGGERS}
    want = eval(src or 'succeeded or failed or submit_failed or expired',
                {'__builtins__': {}}, env)
    return bool(to.is_complete()) == bool(want)


CFG = fx.cfg('basic')


def remove_if_complete(st: int, c_x: bool, c_suc: bool, c_fail: bool,
                       c_exp: bool, tname: int) -> bool:
    """
    pre: 0 <= st < 8 and 0 <= tname <= 1
    post: _
    """
    with concrete():
        pool = fx.pool(CFG)
        tasks = [fx.itask(CFG, 'a', 2), fx.itask(CFG, 'b', 2)]
        other = fx.itask(CFG, 'c', 2)
        for t in tasks + [other]:
            pool.add_to_pool(t)
    itask = tasks[tname]
    itask.state.status = fx.STATUSES[st]
    for m, c in (('xx', c_x), ('succeeded', c_suc), ('failed', c_fail),
                 ('expired', c_exp)):
        if c and m in itask.state.outputs._completed:
            itask.state.outputs.set_message_complete(m)
    final = fx.STATUSES[st] in ('succeeded', 'failed', 'submit-failed',
                                'expired')
    # task a: "a:x?" optional custom output, success required;
    # task b: success required
    complete = c_suc
    removed = pool.remove_if_complete(itask)
    inpool = any(t is itask for t in pool.get_tasks())
    return (removed == (final and complete) and inpool == (not removed)
            and any(t is other for t in pool.get_tasks()))


SPAWN_OUTS = ['succeeded', 'failed', 'xx', 'expired', 'submitted',
              'submit-failed', 'started']


def spawn_removal(st: int, flow_wait: bool, flows: bool, out: int,
                  c_x: bool, c_suc: bool, c_fail: bool, in_pool: bool) -> bool:
    """
    pre: sl(out=out, flow_wait=flow_wait, flows=flows)
    pre: 0 <= st < 8 and 0 <= out < len(SPAWN_OUTS)
    post: _
    """
    # the path every natural / forced output takes: TaskPool.spawn_on_output
    # (children spawned for real) must end by removing the parent iff it is
    # finished and complete - whatever the flow-wait / no-flow state.
    with concrete():
        pool = fx.pool(CFG)
        itask = fx.itask(CFG, 'a', 2)
        other = fx.itask(CFG, 'c', 4)
        pool.add_to_pool(other)
        output = SPAWN_OUTS[SLICE.get('out', 0)]
    if out != SLICE.get('out', 0):
        return True
    if in_pool:
        pool.add_to_pool(itask)     # else: transient (cylc set on a non-pool task)
    itask.state.status = fx.STATUSES[st]
    itask.flow_wait = flow_wait
    if not flows:
        itask.flow_nums = set()
    for m, c in (('xx', c_x), ('succeeded', c_suc), ('failed', c_fail)):
        if c:
            itask.state.outputs.set_message_complete(m)
    final = fx.STATUSES[st] in ('succeeded', 'failed', 'submit-failed',
                                'expired')
    pool.spawn_on_output(itask, output)
    still = any(t is itask for t in pool.get_tasks())
    want_still = in_pool and not (final and c_suc)
    return still == want_still and any(
        t is other for t in pool.get_tasks())


def OBLIGATIONS(tier):
    big = tier == 'thorough'
    t = 1200 if big else 150
    obs = [Ob('smt_default_expression', 'smt_default_expression', kind='smt',
              timeout=t, twin=False)]
    for di in _pick(60 if big else 14):
        obs.append(Ob(f'is_complete[decl={di}]', 'is_complete', timeout=t,
                      slice={'di': di}))
    for ui in range(len(USER_EXPRS)):
        obs.append(Ob(f'user_expr[{ui}]', 'user_expr', timeout=t,
                      slice={'ui': ui}))
    obs.append(Ob('remove_if_complete', 'remove_if_complete', timeout=t))
    for out in range(len(SPAWN_OUTS)):
        for fw in (False, True):
            for fl in (False, True):
                obs.append(Ob(
                    f'spawn_removal[{SPAWN_OUTS[out]},wait={fw},flows={fl}]',
                    'spawn_removal', timeout=t,
                    slice={'out': out, 'flow_wait': fw, 'flows': fl}))
    return obs


def VALIDATE():
    """py_bool_to_z3 against the real evaluator on all assignments of the
    expression shapes used; oracles on literal cases."""
    import z3
    from vf.smtx import py_bool_to_z3
    from cylc.flow.task_outputs import CompletionEvaluator
    n = 0
    for src in ['a and b', 'a or b and c', '(a or b) and c',
                '(a and b) or (c and d)', 'a', '(a and b and c) or d']:
        f, env = py_bool_to_z3(src)
        names = sorted(env)
        for vals in itertools.product([False, True], repeat=len(names)):
            asg = dict(zip(names, vals))
            want = bool(CompletionEvaluator(src, **asg))
            got = z3.is_true(z3.simplify(z3.substitute(
                f, *[(env[k], z3.BoolVal(v)) for k, v in asg.items()])))
            assert want == got, (src, asg)
            n += 1
    SLICE['di'] = 0
    assert is_complete(0, False, True, False, True, True, False, False, False)
    for i in (0, 7, 400, 1349):
        for bits in itertools.product([False, True], repeat=8):
            assert replay_default(i, *bits)
            n += 1
    for st in range(8):
        assert remove_if_complete(st, False, True, False, False, 0)
        assert remove_if_complete(st, True, False, True, False, 1)
        n += 2
        SLICE['out'] = 0
        assert spawn_removal(st, False, True, 0, False, True, False, True)
        assert spawn_removal(st, True, True, 0, True, False, True, True)
        SLICE.clear()
        n += 2
    return n

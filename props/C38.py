"""C38 — `cylc clean` deletes only inside the workflow."""
import glob
import os
import shutil
import tempfile
from pathlib import Path

from vf.api import Ob, sl, SLICE, concrete, fork_int, fork_bool, kf

from cylc.flow import pathutil
from cylc.flow.clean import clean
from cylc.flow.exceptions import WorkflowFilesError
from cylc.flow.pathutil import parse_rm_dirs

META = dict(
    level='model_checking',
    technique='bounded symbolic execution (CrossHair + z3) over symbolic '
              'choices of the run-directory layout and of the --rm pattern '
              '(the solver certifies that every combination in the bounded '
              'family was generated); each runs the real clean on a scratch '
              'tree that is inspected afterwards',
    text='Run directories are built from symbolic choices: which of log, '
         'share, share/cycle and work are standard symlink directories '
         '(targets elsewhere ending in cylc-run/<id>/<dir>) or plain '
         'directories, whether the run directory itself is one, and a fixed '
         'set of hazards inside it - a symlink to a directory outside, a '
         'symlink to a file outside, a broken symlink, a symlink inside a '
         'standard symlink directory\'s target pointing outside, files and '
         'nested directories. The real clean (get_symlink_dirs, '
         '_clean_using_glob, glob_in_run_dir, remove_dir_and_target, '
         'remove_dir_or_file, remove_empty_parents) runs wholesale or with '
         'one of 16 --rm patterns (names, globs, recursive globs, patterns '
         'that walk through the hazards, trailing slashes, colon lists '
         'through parse_rm_dirs). z3 decides on every path that nothing '
         'outside the run directory and the standard symlink targets was '
         'deleted or changed (the outside trees are compared byte for byte), '
         'that other symlinks were removed as links - never followed - and '
         'that every path the pattern matches (computed with an independent '
         'walk that does not descend into non-standard symlinks) is gone, '
         'and nothing else inside is.',
    note='real filesystem under a scratch directory; remote clean, the '
         'contact-file check and the run database are outside.',
    functions=['clean', 'get_symlink_dirs', '_clean_using_glob',
               'glob_in_run_dir', 'remove_dir_and_target',
               'remove_dir_or_file', 'remove_empty_parents',
               'parse_rm_dirs'],
    bounds=['symlink-dir layout: 6 variants; 17 patterns (wholesale + 16)'],
    stubs=['cylc-run directory redirected to a scratch directory'],
    assumptions=[],
    outside=['remote hosts', 'running-scheduler detection', 'patterns '
             'rejected by parse_rm_dirs (absolute, parent references)'],
)

LAYOUTS = [
    (),                                   # no symlink dirs
    ('log',),
    ('share', 'work'),
    ('share/cycle',),
    ('share', 'share/cycle', 'log', 'work'),
    ('',),                                # the run dir itself
]
PATTERNS = [
    None, 'log', 'share', 'work', 'share/cycle', 'share/cycle/', '*',
    '**', 'log/*', '**/file*', 'rogue_dir', 'rogue_dir/*', 'rogue_dir/**',
    'sub/**/deep*', 'rogue_file:broken', 'share/trap/*', 'nomatch*',
]
STD = ['log', 'share', 'share/cycle', 'work']


def build(d, layout):
    """Return (run_dir, outside roots, symlink targets)."""
    root = Path(d, 'cylc-run')
    run = root / 'wf' / 'run1'
    other = Path(d, 'disk2')
    outside = Path(d, 'outside')
    (outside / 'precious').mkdir(parents=True)
    (outside / 'precious' / 'data.txt').write_text('keep me')
    (outside / 'file.txt').write_text('keep me too')
    targets = {}
    if '' in layout:
        target = other / 'cylc-run' / 'wf' / 'run1'
        target.mkdir(parents=True)
        run.parent.mkdir(parents=True)
        run.symlink_to(target)
        targets[''] = target
    else:
        run.mkdir(parents=True)
    for name in STD:
        path = run / name
        if name in layout:
            target = other / 'cylc-run' / 'wf' / 'run1' / name
            target.mkdir(parents=True, exist_ok=True)
            path.parent.mkdir(parents=True, exist_ok=True)
            if not path.exists():
                path.symlink_to(target)
                targets[name] = target
        else:
            path.mkdir(parents=True, exist_ok=True)
    # contents
    (run / 'flow.cylc').write_text('x')
    (run / 'file1').write_text('1')
    (run / 'log' / 'file_log').write_text('l')
    (run / 'share' / 'file_share').write_text('s')
    (run / 'share' / 'cycle' / 'file_cycle').write_text('c')
    (run / 'work' / 'w1').mkdir()
    (run / 'sub' / 'mid').mkdir(parents=True)
    (run / 'sub' / 'mid' / 'deep.txt').write_text('d')
    # hazards
    (run / 'rogue_dir').symlink_to(outside / 'precious')
    (run / 'rogue_file').symlink_to(outside / 'file.txt')
    (run / 'broken').symlink_to(outside / 'does_not_exist')
    (run / 'share' / 'trap').symlink_to(outside / 'precious')
    (run / 'sub' / 'mid' / 'up').symlink_to(outside)
    return run, [outside], targets


def tree(root):
    """{relative path: kind/content}; does not follow symlinks."""
    out = {}
    root = str(root)
    if not os.path.lexists(root):
        return out
    for dirpath, dirs, files in os.walk(root, followlinks=False):
        for n in dirs + files:
            p = os.path.join(dirpath, n)
            rel = os.path.relpath(p, root)
            if os.path.islink(p):
                out[rel] = ('link', os.readlink(p))
            elif os.path.isdir(p):
                out[rel] = ('dir',)
            else:
                with open(p) as f:
                    out[rel] = ('file', f.read())
    return out


def logical(run, std_links):
    """Paths under the run dir as the user sees them: standard symlink dirs
    are descended into, other symlinks are leaves."""
    out = set()

    def walk(p, rel):
        for n in sorted(os.listdir(p)):
            q, r = os.path.join(p, n), (f'{rel}/{n}' if rel else n)
            out.add(r)
            if os.path.islink(q):
                if r in std_links and os.path.isdir(q):
                    walk(q, r)
            elif os.path.isdir(q):
                walk(q, r)
    walk(str(run), '')
    return out


def expected_matches(run, pattern, std_links):
    """Independent expansion of one glob pattern over the logical tree."""
    import fnmatch
    paths = logical(run, std_links)
    pat = pattern.rstrip('/')
    want = set()
    for p in paths:
        if _glob_match(p.split('/'), pat.split('/')):
            if pattern.endswith('/') and not os.path.isdir(
                    os.path.join(str(run), p)):
                continue
            want.add(p)
    return want


def _glob_match(parts, pats):
    import fnmatch
    if not pats:
        return not parts
    if pats[0] == '**':
        return any(_glob_match(parts[i:], pats[1:])
                   for i in range(len(parts) + 1)) if pats[1:] else bool(
                       parts) or True
    if not parts:
        return False
    if parts[0].startswith('.') and not pats[0].startswith('.'):
        return False
    return fnmatch.fnmatchcase(parts[0], pats[0]) and _glob_match(
        parts[1:], pats[1:])


def _run(li, pi):
    d = tempfile.mkdtemp(prefix='cylc-verif-c38-')
    old = pathutil._CYLC_RUN_DIR
    cwd = os.getcwd()
    try:
        pathutil._CYLC_RUN_DIR = os.path.join(d, 'cylc-run')
        run, outside, targets = build(d, LAYOUTS[li])
        std_links = set(targets) - {''}
        before_out = [tree(o) for o in outside]
        before_in = logical(run, std_links)
        pattern = PATTERNS[pi]
        rm = None
        want_gone = None
        if pattern is not None:
            rm = parse_rm_dirs([pattern])
            want_gone = set()
            for pat in rm:
                want_gone |= expected_matches(run, pat, std_links)
        try:
            clean('wf/run1', run, rm)
        except WorkflowFilesError:
            return False
        # (1) nothing outside was touched
        if [tree(o) for o in outside] != before_out:
            return False
        if pattern is None:
            # (2) wholesale: the run dir and every standard target are gone
            if os.path.lexists(run):
                return False
            return not any(t.exists() for t in targets.values())
        # (3) targeted: exactly the matches (and what lies below them) go
        after_in = logical(run, std_links) if os.path.lexists(run) else set()
        gone = before_in - after_in
        below = {p for p in before_in
                 if any(p == m or p.startswith(m + '/') for m in want_gone)}
        if gone != below:
            return False
        # a removed standard symlink dir takes its target with it
        for name, t in targets.items():
            if name and name in want_gone and t.exists():
                return False
        return True
    finally:
        os.chdir(cwd)
        pathutil._CYLC_RUN_DIR = old
        shutil.rmtree(d, ignore_errors=True)


def cleaning(li: int, pi: int) -> bool:
    """
    pre: sl(li=li)
    pre: 0 <= li < len(LAYOUTS) and 0 <= pi < len(PATTERNS)
    pre: not kf('C38.cleaning', li=li, pi=pi)
    post: _
    """
    li, pi = fork_int(li, 0, len(LAYOUTS) - 1), fork_int(pi, 0, len(PATTERNS) - 1)
    with concrete():
        return _run(li, pi)


def OBLIGATIONS(tier):
    big = tier == 'thorough'
    t = 1200 if big else 170
    return [Ob(f'cleaning[layout={i}]', 'cleaning', timeout=t, twin=(i == 0),
               slice={'li': i}) for i in range(len(LAYOUTS))]


def VALIDATE():
    n = 0
    assert _glob_match(['a', 'b'], ['**']) and _glob_match(['a'], ['*'])
    assert not _glob_match(['a', 'b'], ['*'])
    assert _glob_match(['sub', 'mid', 'deep.txt'], ['sub', '**', 'deep*'])
    assert _run(0, 0) and _run(1, 1)
    return n + 5

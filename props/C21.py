"""C21 — database writes are atomic and the public database converges."""
import os
import shutil
import sqlite3
import tempfile

from vf.api import Ob, sl, concrete, SLICE, within, kf, fork_int, fork_bool

from cylc.flow.rundb import CylcWorkflowDAO
from cylc.flow.workflow_db_mgr import WorkflowDatabaseManager

META = dict(
    level='model_checking',
    text='Bounded symbolic execution of the real CylcWorkflowDAO.'
         'execute_queued_items / _execute_stmt / add_*_item and '
         'WorkflowDatabaseManager.process_queued_ops / recover_pub_from_pri / '
         'copy_pri_to_pub against REAL sqlite files; the position of an '
         'injected sqlite3 error (or crash) in the batch, the pattern of '
         'public-database failures and the batch sizes are symbolic and z3 '
         'decides every path: a private failure at any statement leaves the '
         'previous committed state; after the last successful public write '
         'the public content equals the private content.',
    note='sqlite itself is real (file databases in a scratch directory, '
         'removed on every path); failures are injected by a connection '
         'wrapper raising sqlite3.OperationalError (or a crash exception) at '
         'the chosen executemany/commit; MAX_TRIES lowered to 2 (bound); '
         'two tables: one keyed (workflow_params), one unkeyed (task_events).',
    functions=['CylcWorkflowDAO.execute_queued_items/_execute_stmt/connect/'
               'close/add_insert_item/add_delete_item/add_update_item',
               'CylcWorkflowDAOTable.*', 'WorkflowDatabaseManager.'
               'process_queued_ops/recover_pub_from_pri/copy_pri_to_pub'],
    bounds=['batch: 0..2 inserts per table, 0..1 update, 0..1 delete; failure '
            'position 0 (none) .. 7 (incl. the commit); crash or sqlite error',
            'public DB: 4 rounds, symbolic failure bit per round, 0..2 inserts '
            'per round, MAX_TRIES = 2, health check after every round'],
    stubs=['failure injection wrapper around sqlite3.Connection',
           'rundb.pformat (log-message formatting only) -> constant string',
           'workflow_db_mgr.mkstemp -> deterministic unused file name'],
    assumptions=['the scheduler calls database_health_check (recover_pub_from_'
                 'pri) between writes, as its main loop does'],
    outside=['real lock contention timing', 'other tables'],
)

SCRATCH = []

# formatting stub: pprint.pformat cannot be executed under CrossHair (the
# error message it builds is only logged); the statements are unaffected.
import cylc.flow.rundb as _rundb
_rundb.pformat = lambda obj, *a, **k: '<sql queue>'

# environment stub: tempfile.mkstemp draws random names (CrossHair makes
# `random` symbolic); use a deterministic unused name in the same directory.
import cylc.flow.workflow_db_mgr as _wdm


def _mkstemp(prefix='tmp', dir=None):
    i = 0
    while True:
        path = os.path.join(dir, f'{prefix}.tmp{i}')
        if not os.path.exists(path):
            return os.open(path, os.O_RDWR | os.O_CREAT | os.O_EXCL, 0o600), path
        i += 1


_wdm.mkstemp = _mkstemp


class Crash(BaseException):
    """The process dies here (not an sqlite error)."""


class FailingConn:
    """sqlite3.Connection proxy raising at the n-th executemany/commit."""

    def __init__(self, conn, plan):
        self.conn = conn
        self.plan = plan        # {'at': int, 'crash': bool, 'count': int}

    def _tick(self):
        self.plan['count'] += 1
        if self.plan['count'] == self.plan['at']:
            if self.plan.get('crash'):
                raise Crash()
            raise sqlite3.OperationalError('database is locked')

    def executemany(self, stmt, args):
        self._tick()
        return self.conn.executemany(stmt, args)

    def commit(self):
        self._tick()
        return self.conn.commit()

    def __enter__(self):
        self.conn.__enter__()
        return self

    def __exit__(self, *exc):
        return self.conn.__exit__(*exc)

    def __getattr__(self, name):
        return getattr(self.conn, name)


def mkdao(path, is_public, plan):
    dao = CylcWorkflowDAO(path, is_public=is_public, create_tables=True)
    dao.close()

    def connect():
        if dao.conn is None:
            dao.conn = FailingConn(
                sqlite3.connect(path, timeout=0.2), plan)
        return dao.conn
    dao.connect = connect
    return dao


def dump(path):
    conn = sqlite3.connect(path)
    try:
        out = {}
        for t in ('task_events', 'workflow_params'):
            out[t] = sorted(conn.execute(f'SELECT * FROM {t}').fetchall())
        return out
    finally:
        conn.close()


def scratch():
    d = tempfile.mkdtemp(prefix='cylc-verif-c21-')
    return d


def event(k):
    return {'name': 'a', 'cycle': '1', 'time': str(k), 'submit_num': 1,
            'event': 'e', 'message': 'm'}


def pri_atomic(n_ev: int, n_par: int, upd: bool, dele: bool, at: int,
               crash: bool) -> bool:
    """
    pre: sl(at=at, crash=crash)
    pre: 0 <= n_ev <= 2 and 0 <= n_par <= 2 and 0 <= at <= 7
    post: _
    """
    with concrete():
        d = scratch()
        plan = {'at': 0, 'crash': False, 'count': 0}
        dao = mkdao(os.path.join(d, 'pri.db'), False, plan)
        # previous committed state
        dao.add_insert_item('task_events', event(0))
        dao.add_insert_item('workflow_params', ['k0', 'v0'])
        dao.add_insert_item('workflow_params', ['kdel', 'x'])
        dao.execute_queued_items()
        before = dump(dao.db_file_name)
    n_ev, n_par = fork_int(n_ev, 0, 2), fork_int(n_par, 0, 2)
    upd, dele, crash = fork_bool(upd), fork_bool(dele), fork_bool(crash)
    at = fork_int(at, 0, 7)
    try:
        for i in range(n_ev):
            dao.add_insert_item('task_events', event(i + 1))
        for i in range(n_par):
            dao.add_insert_item('workflow_params', [f'k{i}', f'new{i}'])
        if upd:
            dao.add_update_item('task_events', (
                {'message': 'upd'}, {'time': '0'}))
        if dele:
            dao.add_delete_item('workflow_params', {'key': 'kdel'})
        n_stmts = ((1 if n_ev else 0) + (1 if n_par else 0)
                   + (1 if upd else 0) + (1 if dele else 0))
        plan.update(at=at, crash=crash, count=0)
        raised = None
        try:
            dao.execute_queued_items()
        except sqlite3.Error:
            raised = 'sqlite'
        except Crash:
            raised = 'crash'
        plan['at'] = 0
        after = dump(dao.db_file_name)
        # the failure fires if its position is within the statements executed
        # (+1 for the commit, which only happens if something was executed)
        fires = at != 0 and n_stmts > 0 and at <= n_stmts + 1
        if fires:
            want_raise = 'crash' if crash else 'sqlite'
            return raised == want_raise and after == before
        if raised is not None:
            return False
        # success: the whole batch is applied
        exp_params = {'k0': 'v0', 'kdel': 'x'}
        for i in range(n_par):
            exp_params[f'k{i}'] = f'new{i}'
        if dele:
            exp_params.pop('kdel')
        msgs = sorted((r[2], r[5]) for r in after['task_events'])
        exp_msgs = sorted(
            [('0', 'upd' if upd else 'm')]
            + [(str(i + 1), 'm') for i in range(n_ev)])
        return (dict(after['workflow_params']) == exp_params
                and msgs == exp_msgs
                and not dao.tables['task_events'].insert_queue
                and not dao.tables['workflow_params'].insert_queue)
    finally:
        with concrete():
            dao.close()
            shutil.rmtree(d, ignore_errors=True)


def pub_converges(f1: bool, f2: bool, f3: bool, n1: int, n2: int, n3: int,
                  keyed: bool) -> bool:
    """
    pre: sl(f1=f1, f2=f2)
    pre: 0 <= n1 <= 2 and 0 <= n2 <= 2 and 0 <= n3 <= 1
    pre: not kf('pub_converges', f1=f1, f2=f2, f3=f3, n1=n1, n2=n2, n3=n3, keyed=keyed)
    post: _
    """
    with concrete():
        d = scratch()
        pub_plan = {'at': 0, 'crash': False, 'count': 0}
        mgr = object.__new__(WorkflowDatabaseManager)
        mgr.pri_path = os.path.join(d, 'pri.db')
        mgr.pub_path = os.path.join(d, 'pub.db')
        mgr.pri_dao = mkdao(mgr.pri_path, False,
                            {'at': 0, 'crash': False, 'count': 0})
        mgr.pub_dao = mkdao(mgr.pub_path, True, pub_plan)
        mgr.pub_dao.MAX_TRIES = 2
        tables = ('task_events', 'workflow_params')
        mgr.db_deletes_map = {t: [] for t in tables}
        mgr.db_inserts_map = {t: [] for t in tables}
        mgr.db_updates_map = {t: [] for t in tables}
    n1, n2, n3 = fork_int(n1, 0, 2), fork_int(n2, 0, 2), fork_int(n3, 0, 1)
    f1, f2, f3 = fork_bool(f1), fork_bool(f2), fork_bool(f3)
    keyed = fork_bool(keyed)
    try:
        k = 0
        for fail, n in ((f1, n1), (f2, n2), (f3, n3), (False, 0)):
            for _ in range(n):
                k += 1
                if keyed:
                    mgr.db_inserts_map['workflow_params'].append(
                        {'key': f'k{k}', 'value': 'v'})
                else:
                    mgr.db_inserts_map['task_events'].append(event(k))
            pub_plan.update(at=1 if fail else 0, count=0)
            mgr.process_queued_ops()       # scheduler: process_workflow_db_queue
            pub_plan['at'] = 0
            mgr.recover_pub_from_pri()     # scheduler: database_health_check
        return dump(mgr.pri_path) == dump(mgr.pub_path)
    finally:
        with concrete():
            mgr.pri_dao.close()
            mgr.pub_dao.close()
            shutil.rmtree(d, ignore_errors=True)


def OBLIGATIONS(tier):
    big = tier == 'thorough'
    t = 1200 if big else 150
    obs = [Ob(f'pri_atomic[at={at},crash={c}]', 'pri_atomic', timeout=t,
              slice={'at': at, 'crash': c})
           for at in range(8) for c in ((False, True) if at else (False,))]
    for f1 in (False, True):
        for f2 in (False, True):
            obs.append(Ob(f'pub_converges[f1={f1},f2={f2}]', 'pub_converges',
                          timeout=t, slice={'f1': f1, 'f2': f2}))
    return obs


def VALIDATE():
    n = 0
    for at in range(0, 8):
        for crash in (False, True):
            assert pri_atomic(2, 1, True, True, at, crash), (at, crash)
            n += 1
    assert pri_atomic(0, 0, False, False, 1, False)
    assert pub_converges(False, False, False, 1, 1, 1, False)
    assert pub_converges(True, False, False, 2, 1, 0, False)
    assert pub_converges(True, False, True, 2, 1, 1, True)
    n += 4
    return n

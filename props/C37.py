"""C37 — template variables survive restart unchanged."""
import os
import shutil
import tempfile
from pathlib import Path
from types import SimpleNamespace as NS

from vf.api import Ob, sl, SLICE, concrete, fork_int, fork_bool, kf

from cylc.flow.exceptions import InputError
from cylc.flow.rundb import CylcWorkflowDAO
from cylc.flow.scheduler import Scheduler
from cylc.flow.templatevars import (
    load_template_vars, get_template_vars_from_db)
from cylc.flow.workflow_db_mgr import WorkflowDatabaseManager

META = dict(
    level='model_checking',
    technique='bounded symbolic execution (CrossHair + z3) over symbolic '
              'indices choosing a literal (scalar kind, container kind, '
              'nesting); the solver certifies that every combination in the '
              'bounded family was generated; each goes through the real '
              'parser, a real sqlite file and the real restart loader',
    text='Template variable values are assembled from symbolic choices - 28 '
         'scalar literals (integers incl. 2**63 and 10**30, floats incl. '
         '-0.0, denormals, 1e308 and overflowing 1e999, strings with both '
         'quotes, backslashes, newlines, unicode, the empty string, bytes, '
         'complex numbers, booleans, None) optionally wrapped in a list, '
         'tuple, set, dictionary value / key or a nested list-in-dictionary - '
         'and pass through the real load_template_vars (as -s KEY=VALUE), '
         'WorkflowDatabaseManager.put_workflow_template_vars, '
         'process_queued_ops into a private sqlite file, and back through '
         'CylcWorkflowDAO.select_workflow_template_vars with '
         'Scheduler._load_template_vars and get_template_vars_from_db. z3 '
         'decides on every path that every value the parser accepted is '
         'restored equal and of identical type (recursively, -0.0 and '
         'container element types included), that a variable given again on '
         'the command line at restart wins - whatever its new value, falsy '
         'ones (0, "", False, [], None, 0.0, {}) included - and that others '
         'are still restored.',
    note='repr / ast.literal_eval / sqlite are C functions: values are '
         'concrete literals chosen by index.',
    functions=['load_template_vars', 'eval_var',
               'WorkflowDatabaseManager.put_workflow_template_vars',
               'CylcWorkflowDAO.execute_queued_items / '
               'select_workflow_template_vars',
               'Scheduler._load_template_vars', 'get_template_vars_from_db'],
    bounds=['28 scalar literals x 7 wrappings x a second scalar for '
            'two-element containers; 1 or 2 variables; restart override bit'],
    stubs=['none (a scheduler stand-in holds the template_vars dictionary)'],
    assumptions=[],
    outside=['-S FILE and -z list forms', 'Jinja2 use of the values',
             'rose / plugin supplied variables'],
)

SCALARS = [
    '0', '-1', '42', str(2 ** 63), str(10 ** 30), '-' + str(2 ** 64),
    '1.5', '-0.0', '1e-320', '1e308', '1e999', '-1e999', '0.1',
    '"a"', '""', "'it''s'", '"a\\"b"', "'a\\'b'", '"back\\\\slash"',
    '"new\\nline"', '"café ☃"', '"#not a comment"', '"a=b"',
    'b"bytes"', '1j', 'True', 'False', 'None',
]
WRAPS = ['{0}', '[{0}, {1}]', '({0},)', '({0}, {1})', '{{{0}}}',
         '{{"k": {0}, "j": {1}}}', '{{"k": [{0}, ({1},)]}}']


def same(a, b):
    """Equal and of identical type, recursively."""
    if type(a) is not type(b):
        return False
    if isinstance(a, float):
        import math
        return (a == b and math.copysign(1, a) == math.copysign(1, b)) or (
            a != a and b != b)
    if isinstance(a, (list, tuple)):
        return len(a) == len(b) and all(same(x, y) for x, y in zip(a, b))
    if isinstance(a, dict):
        return list(a) == list(b) and all(
            same(k1, k2) and same(a[k1], b[k2])
            for k1, k2 in zip(a, b))
    if isinstance(a, (set, frozenset)):
        return a == b and all(
            any(same(x, y) for y in b) for x in a)
    return a == b


OVERRIDES = [None, '0', '""', 'False', '[]', 'None', '7', '0.0', '{}']


def _run(si, sj, wi, two, override, ovx=0):
    src = WRAPS[wi].format(SCALARS[si], SCALARS[sj])
    try:
        tv = load_template_vars([f'X={src}'] + (['Y="y"'] if two else []))
    except (InputError, TypeError):
        return True                   # not accepted at first start
    d = tempfile.mkdtemp(prefix='cylc-verif-c37-')
    try:
        logd, srvd = os.path.join(d, 'log'), os.path.join(d, '.service')
        os.mkdir(logd)
        os.mkdir(srvd)
        db = WorkflowDatabaseManager(srvd, logd)
        db.on_workflow_start(False)
        from cylc.flow import __version__ as CYLC_VERSION
        db.put_workflow_params_1(db.KEY_CYLC_VERSION, CYLC_VERSION)
        db.put_workflow_template_vars(tv)
        db.process_queued_ops()
        db.pri_dao.close()
        db.pub_dao.close()
        # --- restart
        cli = {'Y': 'cli'} if override else {}
        if ovx:
            # X given again at restart (falsy values included)
            cli.update(load_template_vars([f'X={OVERRIDES[ovx]}']))
        schd = NS(template_vars=dict(cli))
        with CylcWorkflowDAO(os.path.join(srvd, 'db')) as dao:
            dao.select_workflow_template_vars(
                lambda i, row: Scheduler._load_template_vars(schd, i, row))
        got = schd.template_vars
        if set(got) != ({'X', 'Y'} if (two or override) else {'X'}):
            return False
        if not same(got['X'], cli['X'] if ovx else tv['X']):
            return False
        if 'Y' in got and got['Y'] != ('cli' if override else 'y'):
            return False
        # the reinstall / validate path reads the same table
        got2 = get_template_vars_from_db(Path(d))
        return same(got2.get('X'), tv['X'])
    finally:
        shutil.rmtree(d, ignore_errors=True)


def roundtrip(si: int, sj: int, wi: int, two: bool, override: bool,
              ovx: int) -> bool:
    """
    pre: sl(wi=wi)
    pre: 0 <= si < len(SCALARS) and 0 <= sj < len(SCALARS)
    pre: 0 <= wi < len(WRAPS) and 0 <= ovx < len(OVERRIDES)
    pre: ovx == 0 or (wi == 0 and not two)
    pre: wi in (1, 3, 5, 6) or sj == 0
    pre: sj in SLICE.get('sjs', range(len(SCALARS)))
    pre: SLICE.get('both', True) or two == override
    pre: not kf('C37.roundtrip', si=si, sj=sj, wi=wi)
    post: _
    """
    si, sj = (fork_int(si, 0, len(SCALARS) - 1),
              fork_int(sj, 0, len(SCALARS) - 1))
    wi = fork_int(wi, 0, len(WRAPS) - 1)
    two, override = fork_bool(two), fork_bool(override)
    ovx = fork_int(ovx, 0, len(OVERRIDES) - 1)
    with concrete():
        return _run(si, sj, wi, two, override, ovx)


def OBLIGATIONS(tier):
    big = tier == 'thorough'
    t = 1200 if big else 170
    return [Ob(f'roundtrip[wrap={w}]', 'roundtrip', timeout=t,
               twin=(w == 0),
               slice={'wi': w, 'both': big, **({} if big else {
                   'sjs': (0, 7, 10, 13, 16, 18, 23, 27)})}) for w in range(len(WRAPS))]


def VALIDATE():
    n = 0
    # doctest literals of cylc.flow.templatevars
    assert load_template_vars(['a=42', 'b="string"']) == {
        'a': 42, 'b': 'string'}
    assert _run(0, 0, 0, False, False) and _run(13, 2, 5, True, True)
    assert _run(2, 0, 0, False, False, 1) and _run(13, 0, 0, False, True, 4)
    assert same([1, (2.0,)], [1, (2.0,)]) and not same(1, 1.0)
    assert not same(0.0, -0.0) and not same((1,), [1])
    return n + 5

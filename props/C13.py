"""C13 — prerequisite satisfaction equals the trigger expression's truth."""
import itertools

from vf.api import Ob, sl, concrete, SLICE, fork_int
from vf import fx

from cylc.flow.cycling.integer import IntegerPoint
from cylc.flow.id import Tokens
from cylc.flow.prerequisite import Prerequisite, PrereqTuple
from cylc.flow.task_trigger import Dependency, TaskTrigger
import cylc.flow.prerequisite as _pq

META = dict(
    level='model_checking',
    text='(a) bounded symbolic execution of the real Dependency.'
         'get_prerequisite / Prerequisite.set_conditional_expr / is_satisfied '
         'on the real dependencies of a fixture workflow (AND/OR/parentheses, '
         'negative and positive offsets, output messages that are substrings '
         'of each other or contain regex-special characters, both iteration '
         'orders of the trigger set): the satisfaction bit of every atom is a '
         'symbolic Boolean, the cycle point and start point are symbolic, and '
         'z3 decides that the evaluated prerequisite equals the written '
         'expression over the atoms for every assignment at once; atoms '
         'created satisfied are exactly the pre-initial / pre-start ones. '
         '(b) sequences of satisfy / force-satisfy / unset / set_satisfied / '
         'query operations against a reference model (cache invalidation). '
         '(c) direct z3 string queries: for the rewriting scheme the real '
         'set_conditional_expr is observed to use (captured re.sub calls, '
         'matched against known templates) no valid message can be rewritten '
         'inside another one (tokenisation lemma), for all messages within '
         'the stated alphabet/length.',
    note='fixture graph (13 dependent tasks); integer cycling, points 1..5, '
         'start point 1..3; <= 6 atoms; (c) assumes messages without | & ( ) '
         '" \\ and newline, ASCII, point/name/message <= 5 chars; an '
         'unrecognised rewriting scheme makes (c) inconclusive, never held.',
    functions=['Dependency.get_prerequisite/get_expression/_stringify_list',
               'TaskTrigger.get_point', 'Prerequisite.__setitem__/'
               'set_conditional_expr/is_satisfied/_eval_satisfied/satisfy_me/'
               'set_satisfied/unset_naturally_satisfied'],
    bounds=['13 fixture dependencies, point 1..5, start point 1..3, both '
            'orders of Dependency.task_triggers, <= 6 symbolic atom bits',
            'operation sequences (satisfy / force / skip-mode satisfy / unset '
            '/ set_satisfied / query) of length 2-3 (thorough 3-4) over the '
            'atoms of each fixture dependency at point 3',
            'z3 strings: point -?[0-9]{1,2}, name <= 3 chars, message <= 5 '
            'chars over the validators\' classes (ASCII)'],
    stubs=['none (real classes; the re module of cylc.flow.prerequisite is '
           'wrapped by a recording proxy in obligation (c) only)'],
    assumptions=['the trigger expression tree Dependency._exp is what the '
                 'graph parser produced (graph parsing itself is C14)'],
    outside=['datetime cycle points', 'suicide triggers (same code path)',
             'WorkflowConfig.generate_triggers'],
)

CFG = fx.cfg('triggers')
TASKS = ['t1', 't2', 't3', 't4', 't5', 't6', 't7', 't8', 't9', 't10', 't11',
         't12', 't13']
INITIAL = 1


def deps_of(tname):
    tdef = CFG.get_taskdef(tname)
    out = []
    for seq, deps in tdef.dependencies.items():
        out.extend(deps)
    return tdef, out


def offset_of(trig):
    o = trig.cycle_point_offset
    if o is None:
        return None
    assert o[0] in '+-' and o[1] == 'P', o
    return int(o[0] + o[2:])


def atoms_of(exp):
    """Triggers of a nested expression in written order."""
    out = []
    for item in exp:
        if isinstance(item, TaskTrigger):
            out.append(item)
        elif isinstance(item, list):
            out.extend(atoms_of(item))
    return out


def formula(exp, val):
    """Truth of the written expression; val(trigger) -> bool (may be
    symbolic: only &, | are used)."""
    # precedence: & binds tighter than | (graph syntax = Python's)
    terms = [[]]
    for item in exp:
        if item == '|':
            terms.append([])
        elif item == '&':
            continue
        elif isinstance(item, list):
            terms[-1].append(formula(item, val))
        else:
            terms[-1].append(val(item))
    res = None
    for t in terms:
        conj = t[0]
        for x in t[1:]:
            conj = conj & x
        res = conj if res is None else (res | conj)
    return res


def expr_truth(ti: int, p: int, st: int, rev: bool, b0: bool, b1: bool,
               b2: bool, b3: bool, b4: bool, b5: bool) -> bool:
    """
    pre: sl(ti=ti, p=p)
    pre: 0 <= ti < len(TASKS) and 1 <= p <= 5 and 1 <= st <= 3
    post: _
    """
    with concrete():
        tdef, deps = deps_of(TASKS[SLICE.get('ti', 0)])
        tdef.max_future_prereq_offset = None    # mutated by the code
    if ti != SLICE.get('ti', 0):
        return True
    bits = [b0, b1, b2, b3, b4, b5]
    point = IntegerPoint(str(p))
    tdef.initial_point = IntegerPoint(str(INITIAL))
    tdef.start_point = IntegerPoint(str(st))
    ok = True
    for dep in deps:
        if rev:
            dep = Dependency(dep._exp, tuple(reversed(dep.task_triggers)),
                             dep.suicide)
        pre = dep.get_prerequisite(point, tdef)
        atoms = atoms_of(dep._exp)
        keys = {}
        for t in atoms:
            off = offset_of(t)
            tp = p if off is None else p + off
            k = PrereqTuple(str(tp), t.task_name, t.output)
            init = (off is not None) and (
                tp < INITIAL or (tp < st and p >= st))
            keys[id(t)] = (k, init)
        want_keys = {k for k, _ in keys.values()}
        if set(pre._satisfied) != want_keys:
            return False
        for k, init in keys.values():
            if bool(pre._satisfied[k]) != init:
                return False
        # impose an arbitrary satisfaction state
        distinct = []
        for k, _ in keys.values():
            if k not in distinct:
                distinct.append(k)
        state = {}
        for k, b in zip(distinct, bits):
            state[k] = b
            pre._satisfied[k] = b
        pre._cached_satisfied = None
        got = pre.is_satisfied()
        want = formula(dep._exp, lambda t: state[keys[id(t)][0]])
        ok = ok & ((bool(got) ^ want) ^ True)
    return ok


# --- (b) operation sequences vs. a reference model -------------------------
def cache_ops(ti: int, o1: int, o2: int, o3: int, o4: int) -> bool:
    """
    pre: sl(ti=ti, o1=o1)
    pre: 0 <= ti < len(TASKS)
    pre: 0 <= o1 <= SLICE['maxop'] and 0 <= o2 <= SLICE['maxop']
    pre: 0 <= o3 <= SLICE['maxop'] and 0 <= o4 <= SLICE['maxop']
    post: _
    """
    with concrete():
        tdef, deps = deps_of(TASKS[SLICE.get('ti', 0)])
        tdef.max_future_prereq_offset = None
        tdef.initial_point = IntegerPoint(str(INITIAL))
        tdef.start_point = IntegerPoint('2')
        point = IntegerPoint('3')
        dep = max(deps, key=lambda d: len(d.task_triggers))
        pre = dep.get_prerequisite(point, tdef)
        atoms = atoms_of(dep._exp)
        akey = {}
        for t in atoms:
            off = offset_of(t)
            akey[id(t)] = PrereqTuple(
                str(3 if off is None else 3 + off), t.task_name, t.output)
        ks = list(pre._satisfied)
        n = len(ks)
        model = {k: pre._satisfied[k] for k in ks}
        nops = SLICE.get('nops', 3)
    if ti != SLICE.get('ti', 0):
        return True
    # op code: 0..n-1 satisfy natural; n..2n-1 satisfy forced; 2n..3n-1
    # unset by id of atom; 3n set_satisfied; 3n+1 query only; 3n+2 skip-mode
    for o in (o1, o2, o3, o4)[:nops]:
        o = fork_int(o, 0, 3 * n + 2)
        if o < 2 * n or o == 3 * n + 2:
            j = 0 if o == 3 * n + 2 else o % n
            k = ks[j]
            tok = Tokens(cycle=k.point, task=k.task, task_sel=k.output)
            forced = n <= o < 2 * n
            from cylc.flow.run_modes import RunMode
            mode = RunMode.SKIP if o == 3 * n + 2 else None
            pre.satisfy_me([tok], mode=mode, forced=forced)
            if not model[k]:
                model[k] = ('force satisfied' if forced else
                            'satisfied by skip mode' if mode else
                            'satisfied naturally')
        elif o < 3 * n:
            k = ks[o - 2 * n]
            changed = pre.unset_naturally_satisfied(k.get_id())
            want_changed = False
            for kk in ks:
                if (kk.point == k.point and kk.task == k.task and model[kk]
                        and model[kk] != 'force satisfied'):
                    model[kk] = False
                    want_changed = True
            if changed != want_changed:
                return False
        elif o == 3 * n:
            pre.set_satisfied()
            for kk in ks:
                if not model[kk]:
                    model[kk] = 'force satisfied'
        want = formula(dep._exp, lambda t: bool(model[akey[id(t)]]))
        if bool(pre.is_satisfied()) != want:
            return False
        if {kk: pre._satisfied[kk] for kk in ks} != model:
            return False
    return True


# --- (c) rewriting scheme: z3 string queries --------------------------------
class _ReProxy:
    """Records re.sub calls made by set_conditional_expr."""

    def __init__(self, real):
        self._real = real
        self.calls = []

    def sub(self, pattern, repl, string, *a, **k):
        self.calls.append((pattern, repl, string))
        return self._real.sub(pattern, repl, string, *a, **k)

    def __getattr__(self, name):
        return getattr(self._real, name)


SAMPLES = [
    [('1', 'foo', 'succeeded'), ('11', 'foo', 'succeeded')],
    [('-1', 'x', 'succeeded'), ('1', 'a', 'succeeded')],
    [('1', 'a', 'xx'), ('1', 'a', 'xx-y'), ('2', 'b+c', 'v1.5')],
    [('3', 'a', 'file ready too'), ('3', 'a', 'file ready')],
]


def _templateA(msgs):
    import re
    out = []
    for m in msgs:
        if m[0] == '-':
            out.append(fr"-\b{re.escape(m[1:])}\b")
        else:
            out.append(fr"\b{re.escape(m)}\b")
    return out


def _templateB(msgs):
    import re
    return ['|'.join(re.escape(m) for m in sorted(
        dict.fromkeys(msgs), key=len, reverse=True))]


def _scheme():
    """Which rewriting scheme does the real code use on the samples?"""
    real = _pq.re
    seen = set()
    try:
        for sample in SAMPLES:
            for order in (sample, list(reversed(sample))):
                proxy = _ReProxy(real)
                _pq.re = proxy
                pre = Prerequisite(IntegerPoint('1'))
                for k in order:
                    pre[k] = False
                msgs = [Prerequisite.MESSAGE_TEMPLATE % k for k in order]
                pre.set_conditional_expr('|'.join(msgs))
                pats = [c[0] for c in proxy.calls]
                if pats == _templateA(msgs) and all(
                        isinstance(c[1], str) for c in proxy.calls):
                    seen.add('A')
                elif pats == _templateB(msgs) and callable(
                        proxy.calls[0][1]):
                    seen.add('B')
                else:
                    seen.add('?')
    finally:
        _pq.re = real
    return seen


def _msg_lang(z3):
    """(point, name, text) sorts and the rendered message, per validators."""
    digit = z3.Range('0', '9')
    word = z3.Union(z3.Range('a', 'z'), z3.Range('A', 'Z'), digit,
                    z3.Re('_'))
    point = z3.Concat(z3.Option(z3.Re('-')), z3.Loop(digit, 1, 2))
    namech = z3.Union(word, z3.Re('-'), z3.Re('+'), z3.Re('%'), z3.Re('@'))
    name = z3.Concat(word, z3.Loop(namech, 0, 2))
    # message text: printable ASCII except | & ( ) " \  (stated bound)
    textch = z3.Union(word, z3.Re(' '), z3.Re('-'), z3.Re('.'), z3.Re('+'),
                      z3.Re(':'), z3.Re('/'), z3.Re('*'), z3.Re('?'),
                      z3.Re('['), z3.Re(']'), z3.Re('$'), z3.Re('^'))
    text = z3.Loop(textch, 1, 5)
    return point, name, text, word


def smt_rewrite(slc):
    import z3
    from vf.smtx import Session
    ses = Session()
    seen = _scheme()
    if seen == {'A'}:
        scheme = 'A'
    elif seen == {'B'}:
        scheme = 'B'
    else:
        return ses.result('unknown', message='unrecognised rewriting scheme '
                          f'in set_conditional_expr: {sorted(seen)}')
    point, name, text, word = _msg_lang(z3)

    def msg(tag):
        p, n, t = (z3.String(f'{tag}_p'), z3.String(f'{tag}_n'),
                   z3.String(f'{tag}_t'))
        cons = [z3.InRe(p, point), z3.InRe(n, name), z3.InRe(t, text)]
        return z3.Concat(p, z3.StringVal('/'), n, z3.StringVal(' '), t), \
            (p, n, t), cons
    a, af, ac = msg('a')
    m, mf, mc = msg('m')
    ops = z3.Union(*[z3.Re(c) for c in '|&()'])
    anystr = z3.Star(z3.AllChar(z3.ReSort(z3.StringSort())))
    programs = 0
    if scheme == 'B':
        # single left-to-right pass, alternatives tried longest first.
        # Lemma 1: no message can start at an operator character.
        r, mod = ses.check(*mc, z3.InRe(z3.SubString(m, 0, 1), ops),
                           label='B1: a message matches at an operator')
        programs += 1
        if r != 'unsat':
            return ses.result('unknown' if r != 'sat' else 'sat',
                              message=f'B1 {r}', programs=programs)
        # Lemma 2: at the start of message a (followed by end or operator)
        # no other message at least as long matches.  Whole-message regex
        # membership (z3 decides this form in seconds).
        msgre = z3.Concat(point, z3.Re('/'), name, z3.Re(' '), text)
        A, M, rest = z3.String('A'), z3.String('M'), z3.String('rest')
        r, mod = ses.check(
            z3.InRe(A, msgre), z3.InRe(M, msgre), A != M,
            z3.Length(M) >= z3.Length(A),
            z3.InRe(rest, z3.Union(z3.Re(''), z3.Concat(ops, anystr))),
            z3.PrefixOf(M, z3.Concat(A, rest)),
            label='B2: a longer/equal-length message matches at the start '
                  'of another')
        programs += 1
        if r == 'sat':
            vals = []
            for x in (A, M):
                sv = mod.eval(x, model_completion=True).as_string()
                pt, _, r2 = sv.partition('/')
                nm, _, tx = r2.partition(' ')
                vals += [pt, nm, tx]
            return ses.result(
                'sat', message=f'messages {vals} collide',
                call={'fn': 'replay_pair', 'args': vals}, programs=programs)
        if r != 'unsat':
            return ses.result('unknown', message=f'B2 {r}',
                              programs=programs)
        return ses.result('unsat', programs=programs, scheme='B')
    # scheme A: one re.sub per message with \b delimiters: find message a
    # occurring inside message m at positions where both \b hold.
    u, v = z3.String('u'), z3.String('v')

    def isword(s):
        return z3.InRe(s, word)
    body = z3.String('body')       # the part of a after an optional '-'
    neg = z3.PrefixOf(z3.StringVal('-'), a)
    lastu = z3.SubString(u, z3.Length(u) - 1, 1)
    firstv = z3.SubString(v, 0, 1)
    firstb = z3.SubString(body, 0, 1)
    lastb = z3.SubString(body, z3.Length(body) - 1, 1)
    cons = ac + mc + [
        a != m, m == z3.Concat(u, a, v),
        z3.If(neg, a == z3.Concat(z3.StringVal('-'), body), a == body),
        # \b before body: previous char (the '-' if neg, else last of u or
        # an operator/start) has wordness != first char of body
        z3.If(neg, isword(firstb),
              z3.If(z3.Length(u) == 0, isword(firstb),
                    isword(lastu) != isword(firstb))),
        z3.If(z3.Length(v) == 0, isword(lastb),
              isword(firstv) != isword(lastb)),
    ]
    r, mod = ses.check(*cons, label='A: message rewritten inside another')
    programs += 1
    if r == 'sat':
        vals = [mod.eval(x, model_completion=True).as_string()
                for x in af + mf]
        return ses.result(
            'sat', message=f'message {vals[:3]} is rewritten inside {vals[3:]}',
            call={'fn': 'replay_pair', 'args': vals}, programs=programs)
    return ses.result('unsat' if r == 'unsat' else 'unknown',
                      programs=programs, scheme='A')


def replay_pair(ap, an, at, mp, mn, mt) -> bool:
    """Real Prerequisite on 'a|m' / 'm|a' / '(a&m)|m', both key orders, all
    assignments: must equal the written expression."""
    ka, km = (ap, an, at), (mp, mn, mt)
    sa, sm = (Prerequisite.MESSAGE_TEMPLATE % ka,
              Prerequisite.MESSAGE_TEMPLATE % km)
    for order in ((ka, km), (km, ka)):
        for src, f in ((f'{sa}|{sm}', lambda x, y: x or y),
                       (f'{sm}|{sa}', lambda x, y: x or y),
                       (f'({sa}&{sm})|{sm}', lambda x, y: y)):
            for va, vm in itertools.product((False, True), repeat=2):
                pre = Prerequisite(IntegerPoint('1'))
                for k in order:
                    pre[k] = False
                pre.set_conditional_expr(src)
                pre[ka] = va
                pre[km] = vm
                if bool(pre.is_satisfied()) != f(va, vm):
                    return False
    return True


def OBLIGATIONS(tier):
    big = tier == 'thorough'
    t = 1200 if big else 150
    obs = [Ob('smt_rewrite', 'smt_rewrite', kind='smt', timeout=t,
              twin=False)]
    for ti in range(len(TASKS)):
        for p in (1, 2, 3, 4, 5) if big else (1, 2, 3):
            obs.append(Ob(f'expr_truth[{TASKS[ti]},p={p}]', 'expr_truth',
                          timeout=t, slice={'ti': ti, 'p': p}))
    for ti in range(len(TASKS)):
        tdef, deps = deps_of(TASKS[ti])
        n = max(len(d.task_triggers) for d in deps)
        maxop = 3 * n + 2
        if big:
            nops = 4 if n <= 2 else 3
            for o1 in range(maxop + 1):
                obs.append(Ob(f'cache_ops[{TASKS[ti]},o1={o1}]', 'cache_ops',
                              timeout=t, twin=(o1 == 0),
                              slice={'ti': ti, 'nops': nops, 'o1': o1,
                                     'maxop': maxop}))
        else:
            obs.append(Ob(f'cache_ops[{TASKS[ti]}]', 'cache_ops', timeout=t,
                          slice={'ti': ti, 'nops': 3 if n <= 2 else 2,
                                 'maxop': maxop}))
    return obs


def VALIDATE():
    n = 0
    # formula() against Python's own evaluation of the rendered expression
    for tname in TASKS:
        tdef, deps = deps_of(tname)
        for dep in deps:
            atoms = atoms_of(dep._exp)
            names = {id(t): f'v{i}' for i, t in enumerate(atoms)}

            def render(exp):
                out = []
                for item in exp:
                    if isinstance(item, TaskTrigger):
                        out.append(names[id(item)])
                    elif isinstance(item, list):
                        out.append('(' + render(item) + ')')
                    else:
                        out.append({'|': ' or ', '&': ' and '}[item])
                return ''.join(out)
            src = render(dep._exp)
            for vals in itertools.product((False, True), repeat=len(atoms)):
                env = {names[id(t)]: v for t, v in zip(atoms, vals)}
                assert formula(dep._exp, lambda t: env[names[id(t)]]) == eval(
                    src, {}, env), src
                n += 1
    # tests/unit/test_prerequisite.py style literals
    SLICE.update(ti=1, p=2)
    assert expr_truth(1, 2, 1, False, True, False, False, False, False, False)
    SLICE.update(ti=2, p=2)
    assert expr_truth(2, 2, 1, True, True, False, True, False, False, False)
    SLICE.clear()
    SLICE.update(ti=3, nops=3, maxop=14)
    assert cache_ops(3, 0, 9, 12, 0)
    SLICE.clear()
    assert replay_pair('1', 'foo', 'succeeded', '11', 'foo', 'succeeded')
    assert replay_pair('1', 'a', 'x', '2', 'b', 'y')
    n += 5
    return n

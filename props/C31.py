"""C31 — sequential tasks never overlap and run in cycle order."""
from vf.api import Ob, sl, SLICE, concrete, fork_int, fork_bool
from vf import fx

from cylc.flow.cycling.integer import IntegerPoint
from cylc.flow.taskdef import generate_graph_children, generate_graph_parents

META = dict(
    level='model_checking',
    text='Bounded symbolic execution of the real sequential-task machinery '
         'for a task on two interleaved recurrences (P3 and +P1/P4, members '
         '{2,3,5,7,8,11}): TaskState._add_prerequisites (implicit '
         'previous-instance prerequisite via get_nearest_prev_point), '
         'generate_graph_children / generate_graph_parents (implicit next / '
         'previous instance), and a pool step in which the previous instance '
         'finishes with a symbolic outcome: z3 decides on every path that the '
         'implicit prerequisite names the greatest member strictly before the '
         'point (none for the first), is pre-satisfied exactly when that '
         'member lies before the start point, the implicit child is the '
         'least member after it, and the next instance becomes ready to run '
         'iff the previous one succeeded (not while it is waiting, running, '
         'failed or submit-failed).',
    note='integer cycling; point in 0..13, start point 2..8; the union-of-'
         'recurrences arithmetic with symbolic sequence parameters is C16\'s '
         'job; "never active at the same time" over whole runs is reduced to '
         'this one-step lemma (the next instance cannot be queued before the '
         'previous instance\'s succeeded output is processed).',
    functions=['TaskState._add_prerequisites', 'IntegerSequence.'
               'get_nearest_prev_point / get_next_point / get_prev_point',
               'generate_graph_children', 'generate_graph_parents',
               'TaskPool.spawn_on_output', 'TaskProxy.is_ready_to_run',
               'TaskPool.queue_if_ready'],
    bounds=['members {2,3,5,7,8,11}, candidate points 0..13, start point '
            '2..8, previous-instance outcome out of 5'],
    stubs=['pri_dao (no history)', 'data_store_mgr', 'workflow_db_mgr'],
    assumptions=[],
    outside=['whole-run interleavings', 'datetime cycling'],
)

CFG = fx.cfg('sequential')
MEMBERS = [2, 3, 5, 7, 8, 11]


def prev_of(p):
    lo = [m for m in MEMBERS if m < p]
    return max(lo) if lo else None


def next_of(p):
    hi = [m for m in MEMBERS if m > p]
    return min(hi) if hi else None


def _prereq(p, st):
    tdef = CFG.get_taskdef('s')
    old = tdef.start_point
    tdef.start_point = IntegerPoint(str(st))
    try:
        it = fx.itask(CFG, 's', p)
    finally:
        tdef.start_point = old
    seqpre = [pre for pre in it.state.prerequisites
              if any(k.task == 's' for k in pre._satisfied)]
    prev = prev_of(p)
    if prev is None:
        if seqpre:
            return False
    else:
        if len(seqpre) != 1:
            return False
        items = list(seqpre[0]._satisfied.items())
        if len(items) != 1:
            return False
        (k, v) = items[0]
        if (k.point, k.task, k.output) != (str(prev), 's', 'succeeded'):
            return False
        if bool(v) != (prev < st):
            return False
        if seqpre[0].is_satisfied() != (prev < st):
            return False
    # implicit child / parent
    kids = [c for c in generate_graph_children(tdef, IntegerPoint(str(p)))
            .get('succeeded', []) if c.name == 's']
    nxt = next_of(p)
    if nxt is None:
        if kids:
            return False
    elif [(c.name, int(c.point)) for c in kids] != [('s', nxt)]:
        return False
    pars = [c for c in generate_graph_parents(
        tdef, IntegerPoint(str(p)), CFG.taskdefs) if c.name == 's']
    if prev is None:
        return not pars
    return [(c.name, int(c.point)) for c in pars] == [('s', prev)]


def prereq(pi: int, st: int) -> bool:
    """
    pre: 0 <= pi < len(MEMBERS) and 2 <= st <= 8
    post: _
    """
    p = MEMBERS[fork_int(pi, 0, len(MEMBERS) - 1)]
    st = fork_int(st, 2, 8)
    with concrete():
        return _prereq(p, st)


OUTCOMES = ['waiting', 'running', 'succeeded', 'failed', 'submit-failed']


def _handover(p, oi, pre_spawned):
    pool = fx.pool(CFG, real_events=True)
    pool.task_events_mgr.spawn_func = pool.spawn_on_output
    prev = fx.itask(CFG, 's', p)
    prev.state.is_runahead = False
    pool.add_to_pool(prev)
    nxt = next_of(p)
    if nxt is None:
        return True
    child = None
    if pre_spawned:
        child = fx.itask(CFG, 's', nxt)
        child.state.is_runahead = False
        pool.add_to_pool(child)
    outcome = OUTCOMES[oi]
    tem = pool.task_events_mgr
    import logging
    if outcome != 'waiting':
        prev.state.status = 'preparing'
        tem.process_message(prev, logging.INFO, 'submitted')
        if outcome == 'submit-failed':
            prev.state.status = 'preparing'
        if outcome in ('running', 'succeeded', 'failed'):
            tem.process_message(prev, logging.INFO, 'started')
        if outcome == 'succeeded':
            tem.process_message(prev, logging.INFO, 'succeeded')
        elif outcome == 'failed':
            tem.process_message(prev, logging.CRITICAL, 'failed')
        elif outcome == 'submit-failed':
            tem.process_message(prev, logging.CRITICAL, 'submission failed')
    child = pool._get_task_by_id(f'{nxt}/s')
    if outcome == 'succeeded':
        if child is None:
            return False              # next instance must exist now
        child.state.is_runahead = False
        pool.queue_if_ready(child)
        return child.is_ready_to_run() and child.state.is_queued
    if child is None:
        return not pre_spawned
    pool.queue_if_ready(child)
    # previous instance not succeeded: next must not be ready / queued
    return (not child.is_ready_to_run()) and not child.state.is_queued


def handover(pi: int, oi: int, pre: bool) -> bool:
    """
    pre: 0 <= pi < len(MEMBERS) and 0 <= oi < len(OUTCOMES)
    post: _
    """
    p = MEMBERS[fork_int(pi, 0, len(MEMBERS) - 1)]
    oi = fork_int(oi, 0, len(OUTCOMES) - 1)
    pre = fork_bool(pre)
    with concrete():
        return _handover(p, oi, pre)


def OBLIGATIONS(tier):
    big = tier == 'thorough'
    t = 1200 if big else 150
    return [Ob('prereq', 'prereq', timeout=t),
            Ob('handover', 'handover', timeout=t)]


def VALIDATE():
    n = 0
    from cylc.flow.cycling.integer import IntegerPoint as IP
    td = CFG.get_taskdef('s')
    assert [p for p in range(0, 14) if td.is_valid_point(IP(str(p)))] == \
        MEMBERS
    assert _prereq(5, 2) and _prereq(5, 4) and _prereq(2, 2) and _prereq(11, 8)
    assert _handover(3, 2, False) and _handover(3, 3, True)
    return n + 7

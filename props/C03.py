"""C03 — no premature shutdown and no false stall."""
import types
from types import SimpleNamespace as NS

from vf.api import Ob, sl, SLICE, concrete, fork_int, fork_bool, Stub
from vf import fx

from cylc.flow.cycling.integer import IntegerPoint
from cylc.flow.scheduler import Scheduler

META = dict(
    level='model_checking',
    text='Bounded symbolic execution of the real Scheduler.check_auto_shutdown '
         'and check_workflow_stalled (called on a stand-in scheduler object) '
         'and the real TaskPool.is_stalled / log_incomplete_tasks / '
         'log_unsatisfied_prereqs on a real pool of two task proxies whose '
         'status, runahead flag, prerequisite satisfaction, completion, and '
         'the scheduler\'s paused / restart-timeout / already-stalled flags '
         'and stop point are symbolic: z3 decides on every path that shutdown '
         'is granted exactly when the scheduler is not paused or waiting, no '
         'task is preparing / submitted / running, no waiting task is '
         'released from the runahead pool, no finished task is incomplete and '
         'no prerequisite within the stop point is partially satisfied; that '
         'a stall is reported exactly when no task is active or ready and '
         'something is incomplete or unsatisfied; and that the early stop '
         'point is forgotten exactly when shutdown is granted.',
    note='pool: b@2 (one conditional prerequisite) and a@3 (parentless); all '
         '8 statuses for b, 4 for a; stop point none / 2 / 3; one-step '
         'predicates only: "never leaves a ready task unsubmitted '
         'indefinitely" is liveness over main-loop iterations and outside; '
         'all pool states are considered (an over-approximation of the '
         'reachable ones).',
    functions=['Scheduler.check_auto_shutdown', 'Scheduler.'
               'check_workflow_stalled', 'TaskPool.is_stalled',
               'TaskPool.log_incomplete_tasks',
               'TaskPool.log_unsatisfied_prereqs',
               'TaskState.get_unsatisfied_prerequisites',
               'TaskOutputs.is_complete'],
    bounds=['2 pooled tasks; status x runahead x prerequisite x completion '
            'bits; paused, restart-timeout-wait, already-stalled flags; stop '
            'point none/2/3'],
    stubs=['scheduler stand-in (flags, timers, event handlers recorded)',
           'workflow_db_mgr', 'data_store_mgr'],
    assumptions=[],
    outside=['liveness over main-loop iterations', 'stall timeout timers',
             'abort-on-stall configuration'],
)

CFG = fx.cfg('basic')
ST = fx.STATUSES
A_ST = ['waiting', 'running', 'succeeded', 'failed']
FINAL = ('succeeded', 'failed', 'submit-failed', 'expired')
ACTIVE = ('preparing', 'submitted', 'running')


def _run(sb, sa, rb, ra, pre_b, cb, ca, paused, rwait, already, stop):
    pool = fx.pool(CFG)
    b = fx.itask(CFG, 'b', 2)
    a = fx.itask(CFG, 'a', 3)
    for t in (b, a):
        pool.add_to_pool(t)
    b.state.status, a.state.status = ST[sb], A_ST[sa]
    b.state.is_runahead, a.state.is_runahead = rb, ra
    if pre_b:
        for p in b.state.prerequisites:
            p.set_satisfied()
    for t, c in ((b, cb), (a, ca)):
        if c:
            t.state.outputs.set_message_complete('succeeded')
    pool.stop_point = None if stop is None else IntegerPoint(str(stop))
    db = pool.workflow_db_mgr
    calls = []
    schd = NS(
        is_paused=paused, is_restart_timeout_wait=rwait, is_stalled=already,
        pool=pool, workflow_db_mgr=db, timers={},
        EVENT_STALL=Scheduler.EVENT_STALL,
        EVENT_STALL_TIMEOUT=Scheduler.EVENT_STALL_TIMEOUT,
        update_data_store=lambda: None,
        run_event_handlers=lambda *x, **k: calls.append(x))
    schd.check_workflow_stalled = types.MethodType(
        Scheduler.check_workflow_stalled, schd)
    got = Scheduler.check_auto_shutdown(schd)

    tasks = [(b, 2), (a, 3)]
    active = any(t.state.status in ACTIVE for t, _ in tasks)
    released_waiting = any(
        t.state.status == 'waiting' and not t.state.is_runahead
        for t, _ in tasks)
    ready = any(
        t.state.status == 'waiting' and not t.state.is_runahead
        and (t is a or pre_b) for t, _ in tasks)
    incomplete = any(
        t.state.status in FINAL and not c
        for (t, _), c in zip(tasks, (cb, ca)))
    # b's prerequisite names a@2 / a@1: within the stop point iff stop >= 2
    unsat = (not pre_b) and (stop is None or stop >= 2)
    stalled_now = (not active) and (not ready) and (incomplete or unsat)
    # (the stall check is only reached when not paused / not waiting)
    stalled = already or (not paused and not rwait and stalled_now)
    want = not (paused or rwait or stalled or active or released_waiting)
    if got != want:
        return False
    # stall flag / handler exactly when newly stalled
    if schd.is_stalled != stalled:
        return False
    newly = (not already) and (not paused) and (not rwait) and stalled_now
    if bool(calls) != newly:
        return False
    # early stop point forgotten exactly when shutting down with one set
    forgot = [c for c in db.calls
              if c[0] == 'put_workflow_stop_cycle_point']
    if bool(forgot) != (got and stop is not None):
        return False
    # the pool's own predicate
    return pool.is_stalled() == stalled_now


def shutdown(sb: int, sa: int, rb: bool, ra: bool, pre_b: bool, cb: bool,
             ca: bool, paused: bool, rwait: bool, already: bool,
             stop: int) -> bool:
    """
    pre: sl(sb=sb, sa=sa)
    pre: 0 <= sb < 8 and 0 <= sa < 4 and 1 <= stop <= 3
    post: _
    """
    sb, sa, stop = fork_int(sb, 0, 7), fork_int(sa, 0, 3), fork_int(stop, 1, 3)
    bits = [fork_bool(x) for x in (rb, ra, pre_b, cb, ca, paused, rwait,
                                   already)]
    with concrete():
        return _run(sb, sa, *bits, None if stop == 1 else stop)


def OBLIGATIONS(tier):
    big = tier == 'thorough'
    t = 1200 if big else 160
    return [Ob(f'shutdown[b={ST[sb]},a={A_ST[sa]}]', 'shutdown', timeout=t,
               twin=(sb == 0 and sa == 0), slice={'sb': sb, 'sa': sa})
            for sb in range(8) for sa in range(4)]


def VALIDATE():
    n = 0
    # everything finished and complete -> shutdown
    assert _run(7, 2, False, False, True, True, True, False, False, False,
                None)
    # failed with required success -> stall, no shutdown
    assert _run(6, 2, False, False, True, False, True, False, False, False,
                None)
    # waiting beyond stop point (runahead) only -> shutdown
    assert _run(7, 0, False, True, True, True, False, False, False, False, 2)
    assert _run(0, 1, True, False, False, False, False, True, False, False, 3)
    return n + 4

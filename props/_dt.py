"""Datetime cycle points for C18 / C17: a bounded family of point strings
built from components, and an oracle for their instants that does not parse
the strings (computed from the components and the calendar rules)."""
import datetime

from cylc.flow.cycling import iso8601
from cylc.flow.cycling.iso8601 import ISO8601Interval, ISO8601Point

CALS = ['gregorian', '360day', '365day', '366day']
YEARS = [1999, 2000, 2020, 2021]
MONTHS = [1, 2, 3, 12]
DAYS = [1, 28, 29, 30, 31]
HOURS = [0, 23]
TZS = [('Z', 0), ('+01', 60), ('-0530', -330)]
# fixed-length intervals: (string, minutes)
INTERVALS = [('PT1H', 60), ('PT6H', 360), ('P1D', 1440), ('P1W', 10080),
             ('PT30M', 30), ('P2DT3H', 2 * 1440 + 180), ('PT36H', 36 * 60)]

D365 = [31, 28, 31, 30, 31, 30, 31, 31, 30, 31, 30, 31]
D366 = [31, 29, 31, 30, 31, 30, 31, 31, 30, 31, 30, 31]


def dim(cal, y, m):
    if cal == '360day':
        return 30
    if cal == '365day':
        return D365[m - 1]
    if cal == '366day':
        return D366[m - 1]
    leap = y % 4 == 0 and (y % 100 != 0 or y % 400 == 0)
    return (D366 if leap else D365)[m - 1]


def valid(cal, comp):
    y, m, d, _h, _tz = comp
    return d <= dim(cal, y, m)


def instant(cal, comp):
    """Minutes on the calendar's own time line (UTC)."""
    y, m, d, h, tz = comp
    if cal == 'gregorian':
        day = datetime.date(y, m, d).toordinal()
    elif cal == '360day':
        day = y * 360 + (m - 1) * 30 + d
    else:
        table = D365 if cal == '365day' else D366
        day = y * sum(table) + sum(table[:m - 1]) + d
    return day * 1440 + h * 60 - TZS[tz][1]


def pstr(comp):
    y, m, d, h, tz = comp
    return f'{y:04d}{m:02d}{d:02d}T{h:02d}00{TZS[tz][0]}'


def comp(yi, mi, di, hi, tzi):
    return (YEARS[yi], MONTHS[mi], DAYS[di], HOURS[hi], tzi)


def partners(c):
    """Points worth comparing with c: other zones, the same wall clock,
    neighbours across a day / month / year end."""
    y, m, d, h, tz = c
    out = []
    for tz2 in range(len(TZS)):
        out.append((y, m, d, h, tz2))
        out.append((y, m, d, 23 - h, tz2))
        out.append((y, MONTHS[(MONTHS.index(m) + 1) % len(MONTHS)], 1, h,
                    tz2))
        out.append((y, m, 28, h, tz2))
        out.append((y + 1, m, d, h, tz2))
    return out


def sign(x):
    return (x > 0) - (x < 0)


def set_calendar(cal):
    iso8601.init(time_zone='Z', cycling_mode=cal)


def check_pair(cal, c, q):
    """Order / equality / hash of two points under calendar cal."""
    if not (valid(cal, c) and valid(cal, q)):
        return True
    P, Q = ISO8601Point(pstr(c)), ISO8601Point(pstr(q))
    ip, iq = instant(cal, c), instant(cal, q)
    if (P < Q, P == Q, P > Q) != (ip < iq, ip == iq, ip > iq):
        return False
    if (P <= Q, P >= Q, P != Q) != (ip <= iq, ip >= iq, ip != iq):
        return False
    # standardised: equal points are the same key
    SP, SQ = (ISO8601Point(pstr(c)).standardise(),
              ISO8601Point(pstr(q)).standardise())
    if (SP == SQ) != (ip == iq):
        return False
    if ip == iq and (hash(SP) != hash(SQ) or len({SP, SQ}) != 1):
        return False
    if ip != iq and len({SP, SQ}) != 2:
        return False
    # the difference of two points is the difference of their instants
    diff = P - Q
    if not isinstance(diff, ISO8601Interval):
        return False
    back = Q + diff
    return back == P


def check_point(cal, c):
    """standardise and interval arithmetic of one point under calendar cal."""
    if not valid(cal, c):
        return True
    P = ISO8601Point(pstr(c))
    S = ISO8601Point(pstr(c)).standardise()
    if not (S == P) or ISO8601Point(S.value).standardise().value != S.value:
        return False
    if not S.value.endswith('Z'):
        return False                # the workflow's time zone
    for istr, mins in INTERVALS:
        I = ISO8601Interval(istr)
        up = P + I
        if not (up > P) or not ((up - I) == P):
            return False
        if ISO8601Point((up - I).value).standardise().value != S.value:
            return False
        down = P - I
        if not (down < P) or not ((down + I) == P):
            return False
        # P + I is I later on the time line: compare with a family member
        # an exact number of days later, when there is one
        d = up - P
        if not (d == I):
            return False
    return True

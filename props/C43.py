"""C43 — stop point, stop task and stop modes behave as documented."""
import asyncio
from types import SimpleNamespace as NS

from vf.api import Ob, sl, SLICE, concrete, fork_int, fork_bool
from vf import fx

from cylc.flow import commands
from cylc.flow.cycling.integer import IntegerPoint
from cylc.flow.run_modes import RunMode
from cylc.flow.workflow_db_mgr import WorkflowDatabaseManager
from cylc.flow.workflow_status import StopMode

META = dict(
    level='model_checking',
    text='Bounded symbolic execution of (a) the real TaskPool.can_stop on a '
         'real pool with symbolic stop mode, task statuses, kill-failed bits '
         'and pending event-handler timers: a clean / kill stop is granted '
         'exactly when no submitted or running job remains (kill-failed ones '
         'excepted), stop --now exactly when no event handler is pending, '
         '--now --now always, and never without a stop request; (b) the real '
         'stop command (commands.stop) + TaskPool.set_stop_task / '
         'remove_if_complete / stop_task_done with a symbolic outcome of the '
         'stop task: the stop is reported only once that task has finished, '
         'exactly once, and the stop task is then forgotten in the database '
         'rows; (c) symbolic sequences of stop-at-cycle commands and reloads '
         'against a model of the workflow_params table: the stop point handed '
         'to the database always equals the one in force (it survives a '
         'reload and hence a restart) and no task beyond it is released.',
    note='pool of 2-3 proxies; stop points 2..4 on fixture "basic" (final '
         'point 5); the forgetting of the stop point when auto-shutdown is '
         'granted is decided in C03, release beyond the stop point in '
         'C07/C04; restart itself (reading the rows back) is outside.',
    functions=['TaskPool.can_stop', 'commands.stop', 'TaskPool.set_stop_task',
               'TaskPool.stop_task_done', 'TaskPool.remove_if_complete',
               'TaskPool.set_stop_point', 'WorkflowDatabaseManager.'
               'put_workflow_params / put_workflow_stop_cycle_point / '
               'put_workflow_stop_task'],
    bounds=['stop modes: none + 6; 2 tasks x 8 statuses x kill-failed bit; '
            'event timers present or not', 'stop task: 8 statuses x '
            'completion bit; stop before/after', 'command sequences of 3 '
            '(thorough 4) out of: stop at 2/3/4, reload, release pass'],
    stubs=['scheduler stand-in for the command (options, config, pool, DB '
           'manager, _update_workflow_state recorded)', 'data_store_mgr',
           'task_events_mgr'],
    assumptions=[],
    outside=['restart (reading the parameters back)', 'kill of active jobs',
             'clock-time stop'],
)

CFG = fx.cfg('basic')
ST = fx.STATUSES
MODES = [None, StopMode.AUTO, StopMode.AUTO_ON_TASK_FAILURE,
         StopMode.REQUEST_CLEAN, StopMode.REQUEST_KILL, StopMode.REQUEST_NOW,
         StopMode.REQUEST_NOW_NOW]


def _can_stop(mi, s1, s2, k1, k2, timers):
    pool = fx.pool(CFG)
    t1, t2 = fx.itask(CFG, 'a', 1), fx.itask(CFG, 'c', 1)
    for t, s, k in ((t1, s1, k1), (t2, s2, k2)):
        pool.add_to_pool(t)
        t.state.status = ST[s]
        t.state.kill_failed = k
    pool.task_events_mgr.__dict__['_event_timers'] = (
        {'x': 1} if timers else {})
    mode = MODES[mi]
    got = pool.can_stop(mode)
    if mode is None:
        return got is False
    if mode is StopMode.REQUEST_NOW_NOW:
        return got is True
    if timers:
        return got is False
    if mode in (StopMode.REQUEST_CLEAN, StopMode.REQUEST_KILL):
        busy = any(ST[s] in ('submitted', 'running') and not k
                   for s, k in ((s1, k1), (s2, k2)))
        return got == (not busy)
    return got is True


def can_stop(mi: int, s1: int, s2: int, k1: bool, k2: bool,
             timers: bool) -> bool:
    """
    pre: 0 <= mi < len(MODES) and 0 <= s1 < 8 and 0 <= s2 < 8
    post: _
    """
    mi, s1, s2 = fork_int(mi, 0, 6), fork_int(s1, 0, 7), fork_int(s2, 0, 7)
    k1, k2, timers = fork_bool(k1), fork_bool(k2), fork_bool(timers)
    with concrete():
        return _can_stop(mi, s1, s2, k1, k2, timers)


def _schd(pool, mgr):
    calls = []
    return NS(pool=pool, workflow_db_mgr=mgr, config=CFG,
              options=NS(stopcp=None, fcp=None, startcp=None,
                         cycle_point_tz=None),
              uuid_str='u', is_paused=False, stop_clock_time=None,
              stop_task=None, get_run_mode=lambda: RunMode.LIVE,
              _update_workflow_state=lambda: calls.append('upd'),
              _set_stop=lambda m: calls.append(m), calls=calls)


def _stop_task(st, complete, via_spawn):
    pool = fx.pool(CFG)
    mgr = pool.workflow_db_mgr
    schd = _schd(pool, mgr)
    c = fx.itask(CFG, 'c', 2)
    other = fx.itask(CFG, 'a', 3)
    pool.add_to_pool(c)
    pool.add_to_pool(other)
    asyncio.run(commands.run_cmd(commands.stop(schd, None, task='2/c')))
    if pool.stop_task_id != '2/c':
        return False
    puts = [x for x in mgr.calls if x[0] == 'put_workflow_stop_task']
    if [p[1][0] for p in puts] != ['2/c']:
        return False
    if pool.stop_task_done():
        return False                       # not before the task finished
    c.state.status = ST[st]
    if complete:
        for m in ('submitted', 'started', 'succeeded'):
            c.state.outputs.set_message_complete(m)
    # another task finishing must not trigger the stop
    other.state.status = 'succeeded'
    for m in ('submitted', 'started', 'succeeded'):
        other.state.outputs.set_message_complete(m)
    pool.remove_if_complete(other)
    if pool.stop_task_done():
        return False
    if via_spawn:
        pool.spawn_on_output(c, 'succeeded' if complete else 'failed')
    else:
        pool.remove_if_complete(c)
    final = ST[st] in ('succeeded', 'failed', 'submit-failed', 'expired')
    done = pool.stop_task_done()
    if done != final:
        return False
    if done:
        # reported once, then forgotten (in memory and in the DB rows)
        if pool.stop_task_done() or pool.stop_task_id is not None:
            return False
        puts = [x for x in mgr.calls if x[0] == 'put_workflow_stop_task']
        if [p[1][0] for p in puts] != ['2/c', None]:
            return False
    return True


def stop_task(st: int, complete: bool, via_spawn: bool) -> bool:
    """
    pre: 0 <= st < 8
    post: _
    """
    st = fork_int(st, 0, 7)
    complete, via_spawn = fork_bool(complete), fork_bool(via_spawn)
    with concrete():
        return _stop_task(st, complete, via_spawn)


def _apply_params(mgr, table):
    T = mgr.TABLE_WORKFLOW_PARAMS
    for where in mgr.db_deletes_map[T]:
        if not where:
            table.clear()
    for row in mgr.db_inserts_map[T]:
        table[row['key']] = row['value']
    for m in (mgr.db_deletes_map, mgr.db_inserts_map, mgr.db_updates_map):
        for lst in m.values():
            del lst[:]


def _stop_point_rows(ops):
    CFG.stop_point = None       # (the stop command writes it: shared fixture)
    pool = fx.pool(CFG)
    mgr = WorkflowDatabaseManager()
    mgr.pri_dao = mgr.pub_dao = None
    pool.workflow_db_mgr = mgr
    schd = _schd(pool, mgr)
    for p in (1, 2, 3, 4, 5):
        t = fx.itask(CFG, 'a', p)
        pool.add_to_pool(t)
    table = {}
    mgr.put_workflow_params(schd)
    _apply_params(mgr, table)
    in_force = None
    for o in ops:
        if o <= 2:
            sp = o + 2
            asyncio.run(commands.run_cmd(
                commands.stop(schd, None, cycle_point=str(sp))))
            in_force = sp
        elif o == 3:
            mgr.put_workflow_params(schd)          # reload
        else:
            pool.compute_runahead()
            pool.release_runahead_tasks()
        _apply_params(mgr, table)
        want = None if in_force is None else str(in_force)
        if table.get(mgr.KEY_STOP_CYCLE_POINT) != want:
            return False
        if in_force is not None and int(pool.stop_point) != in_force:
            return False
        for t in pool.get_tasks():
            if in_force is not None and int(t.point) > in_force and (
                    t.state.status == 'waiting'
                    and not t.state.is_runahead):
                return False
    CFG.stop_point = None
    return True


def stop_point_rows(o1: int, o2: int, o3: int, o4: int) -> bool:
    """
    pre: 0 <= o1 <= 4 and 0 <= o2 <= 4 and 0 <= o3 <= 4 and 0 <= o4 <= 4
    pre: SLICE.get('n', 3) >= 4 or o4 == 0
    post: _
    """
    ops = [fork_int(o, 0, 4) for o in (o1, o2, o3, o4)][:SLICE.get('n', 3)]
    with concrete():
        return _stop_point_rows(ops)


def OBLIGATIONS(tier):
    big = tier == 'thorough'
    t = 1200 if big else 160
    return [Ob('can_stop', 'can_stop', timeout=t),
            Ob('stop_task', 'stop_task', timeout=t),
            Ob('stop_point_rows', 'stop_point_rows', timeout=t,
               slice={'n': 4 if big else 3})]


def VALIDATE():
    n = 0
    assert _can_stop(3, 5, 0, False, False, False)      # clean, running
    assert _can_stop(3, 5, 7, True, False, False)       # kill failed
    assert _can_stop(5, 5, 4, False, False, True)       # now, timers
    assert _stop_task(7, True, True) and _stop_task(5, False, False)
    assert _stop_point_rows([1, 3, 4]) and _stop_point_rows([4, 2, 0])
    return n + 7

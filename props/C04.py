"""C04 — the runahead limit is respected and never blocks the oldest cycle."""
from vf.api import Ob, sl, SLICE, concrete, fork_int, fork_bool
from vf import fx

from cylc.flow.cycling.integer import IntegerPoint, IntegerInterval

META = dict(
    level='model_checking',
    text='Bounded symbolic execution of the real TaskPool.compute_runahead / '
         'release_runahead_tasks / set_stop_point / remove (+ '
         'spawn_next_parentless) on a real pool over the six recurrences of '
         'fixture "seq": which instances are pooled, the limit Pn, the stop '
         'point, the maximum future offset and a follow-up pool change '
         '(remove earliest / remove latest / add an earlier or later task / '
         'lower or raise the stop point) are symbolic. z3 decides on every '
         'path: (L1) from cold caches the limit equals an independent '
         'arithmetic specification (walk up from the earliest pooled point, '
         '(n+1)-th member of the union of progressions or the last, plus '
         'offset, capped at the stop point); (L2) after any one further pool '
         'change followed by the calls the scheduler makes, no task is '
         'released beyond the specification of the new state (incremental '
         'cache lemma, safety direction) and (L4) the earliest pooled cycle '
         'is never left runahead-limited unless it lies beyond the stop point; '
         '(L3) release flips exactly the limited tasks at or below the limit.',
    note='integer cycling only (count limits Pn, n = 0..3); <= 7 candidate '
         'instances of tasks f and c; duration limits (PT..) exist only for '
         'datetime cycling and are outside; Cylc 7 back-compat branch outside; '
         'after fork of the finite inputs the real code runs untraced.',
    functions=['TaskPool.compute_runahead', 'TaskPool.release_runahead_tasks',
               'TaskPool.set_stop_point', 'TaskPool.remove', 'TaskPool.set_max_future_offset', 'TaskPool.add_to_pool',
               'TaskPool.spawn_next_parentless', 'TaskPool.get_tasks_by_point',
               'IntegerSequence.get_first_point / get_next_point'],
    bounds=['pool: any subset of f@{2,4,8,12}, c@7, e@{4,8} (e carries the future offset P1)', 'limit P0..P3',
            'stop point none or 3..12', 'max future offset none / P1 (through the real set_max_future_offset as e-tasks enter and leave)',
            'one follow-up change out of 6 kinds'],
    stubs=['pri_dao (no history)', 'data_store_mgr', 'workflow_db_mgr'],
    assumptions=[],
    outside=['"never prevents a completable run from finishing" beyond L4',
             'WorkflowConfig.process_runahead_limit parsing',
             'datetime cycling'],
)

CFG = fx.cfg('seq')
FCP = 12
UNION = [2, 3, 4, 5, 7, 8, 10, 11, 12]     # members of any recurrence, 2..12
CAND = [('f', 2), ('f', 4), ('f', 8), ('f', 12), ('c', 7), ('e', 4),
        ('e', 8)]     # e carries a future trigger a[+P1] (offset P1)


def spec(points, n, stop, off):
    """Documented limit: count n cycles on from the earliest pooled point."""
    base = min(points)
    later = [p for p in UNION if p >= base]
    lim = later[min(n, len(later) - 1)] if later else base
    if off:
        lim += off
    if stop is None:
        stop = FCP          # the pool's stop point defaults to the final point
    if lim > stop:
        lim = stop
    return lim


def _mkpool(bits, n, stop, off):
    pool = fx.pool(CFG)
    pool.config.runahead_limit = IntegerInterval.from_integer(n)
    if stop is not None:
        pool.stop_point = IntegerPoint(str(stop))     # known at start-up
    tasks = []
    for (nm, q), b in zip(CAND, bits):
        if b:
            t = fx.itask(CFG, nm, q)
            pool.add_to_pool(t)
            tasks.append(t)
    return pool, tasks


def _off(pool):
    """Largest future-trigger offset among pooled tasks (only e has one)."""
    return 1 if any(t.tdef.name == 'e' for t in pool.get_tasks()) else 0


def _cold(bits, n, stop, off):
    pool, tasks = _mkpool(bits, n, stop, off)
    if not tasks:
        return True
    try:
        pts = [int(t.point) for t in tasks]
        off = _off(pool)
        want = spec(pts, n, stop, off)
        pool.compute_runahead()
        if int(pool.runahead_limit_point) != want:
            return False
        if stop is None or min(pts) <= stop:
            if int(pool.runahead_limit_point) < min(pts):
                return False                                   # L4
        # L3: release exactly the limited tasks at/below the limit
        pool.release_runahead_tasks()
        for t in tasks:
            if t.state.is_runahead != (int(t.point) > want):
                return False
        # everything spawned meanwhile respects the limit too
        for t in pool.get_tasks():
            if not t.state.is_runahead and int(t.point) > want:
                return False
        return True
    finally:
        CFG.runahead_limit = IntegerInterval.from_integer(2)


def cold(b0: bool, b1: bool, b2: bool, b3: bool, b4: bool, b5: bool, b6: bool,
         n: int, stop: int, off: int) -> bool:
    """
    pre: sl(n=n, b5=b5, b6=b6)
    pre: 0 <= n <= 3 and 2 <= stop <= 12 and off == 0
    post: _
    """
    n = fork_int(n, 0, 3)
    off = 0
    stop = fork_int(stop, 2, 12)
    bits = [fork_bool(b) for b in (b0, b1, b2, b3, b4, b5, b6)]
    with concrete():
        return _cold(bits, n, None if stop == 2 else stop, off)


def _step(bits, n, stop, off, op, arg):
    pool, tasks = _mkpool(bits, n, stop, off)
    if not tasks:
        return True
    raised = False
    try:
        pool.compute_runahead()
        pool.release_runahead_tasks()
        live = sorted(pool.get_tasks(), key=lambda t: int(t.point))
        if op == 0:
            # earliest task completes and is removed (main loop then
            # recomputes because tasks were removed)
            pool.remove(live[0])
        elif op == 1:
            pool.remove(live[-1])
        elif op == 2:
            # an earlier / later instance appears (manual set / trigger)
            nm, q = CAND[arg % len(CAND)]
            if pool._get_task_by_id(f'{q}/{nm}') is None:
                pool.add_to_pool(fx.itask(CFG, nm, q))
        elif op == 3:
            raised = stop is not None and 3 + arg > stop
            pool.set_stop_point(IntegerPoint(str(3 + arg)))    # 3..12
            stop = 3 + arg
        elif op == 4:
            # the task carrying the future offset leaves the pool
            es = [t for t in live if t.tdef.name == 'e']
            if not es:
                return True
            pool.remove(es[arg % len(es)])
        pool.compute_runahead()
        before = {id(t): t.state.is_runahead for t in pool.get_tasks()}
        pool.release_runahead_tasks()
        cur = pool.get_tasks()
        if not cur:
            return True
        pts = [int(t.point) for t in cur]
        off = _off(pool)
        want = spec(pts, n, stop, off)
        if not raised and pool.runahead_limit_point is not None and int(
                pool.runahead_limit_point) > want:
            return False               # limit above the specification
        for t in cur:
            newly = (not t.state.is_runahead) and before.get(id(t), True)
            if newly and int(t.point) > want:
                return False           # released beyond the limit (safety)
        base = min(pts)
        first = [t for t in cur if int(t.point) == base]
        if raised:
            # raising the stop point does not recompute the limit until the
            # base point next changes (conservative; outside the claim)
            return True
        if (stop is None or base <= stop) and any(
                t.state.is_runahead for t in first):
            return False               # L4: oldest cycle never blocked
        if pool.runahead_limit_point is None or (
                (stop is None or base <= stop)
                and int(pool.runahead_limit_point) < base):
            return False
        return True
    finally:
        CFG.runahead_limit = IntegerInterval.from_integer(2)


def step(b0: bool, b1: bool, b2: bool, b3: bool, b4: bool, b5: bool, b6: bool,
         n: int, stop: int, off: int, op: int, arg: int) -> bool:
    """
    pre: sl(n=n, op=op, arg=arg)
    pre: 0 <= n <= 3 and 2 <= stop <= 12 and off == 0
    pre: 0 <= op <= 4 and 0 <= arg <= 9
    pre: op >= 2 or arg == 0
    pre: op != 2 or arg <= 6
    pre: op != 4 or arg <= 1
    pre: SLICE.get('stops') is None or stop in SLICE['stops']
    post: _
    """
    n, off = fork_int(n, 0, 3), 0
    stop, op, arg = fork_int(stop, 2, 12), fork_int(op, 0, 4), fork_int(
        arg, 0, 9)
    bits = [fork_bool(b) for b in (b0, b1, b2, b3, b4, b5, b6)]
    with concrete():
        return _step(bits, n, None if stop == 2 else stop, off, op, arg)


def OBLIGATIONS(tier):
    big = tier == 'thorough'
    t = 1800 if big else 170
    obs = []
    for n in range(4):
        for b5 in (False, True):
            for b6 in (False, True):
                obs.append(Ob(f'cold[n={n},e4={b5},e8={b6}]', 'cold',
                              timeout=t, twin=(n == 0 and not b5 and not b6),
                              slice={'n': n, 'b5': b5, 'b6': b6}))
    stops = None if big else [2, 5, 8, 12]
    for n in range(4):
        for op, args in ((0, [0]), (1, [0]), (2, range(7)),
                         (3, range(10) if big else (0, 2, 5, 9)),
                         (4, [0, 1])):
            for arg in args:
                obs.append(Ob(f'step[n={n},op={op},arg={arg}]', 'step',
                              timeout=t, twin=(n == 0 and arg == 0),
                              slice={'n': n, 'op': op, 'arg': arg,
                                     'stops': stops}))
    return obs


def VALIDATE():
    n = 0
    # tests/integration/test_task_pool.py style: P2 from base 2 -> 4
    assert spec([2], 2, None, 0) == 4 and spec([2, 8], 0, None, 0) == 2
    assert spec([8], 3, None, 0) == 12 and spec([8], 3, 10, 1) == 10
    assert _cold([True, False, False, False, False, False, False], 2, None, 0)
    assert _cold([False, True, True, False, True, True, True], 1, 7, 0)
    assert _step([True, True, True, False, False, True, False], 1, None, 0,
                 0, 0)
    assert _step([False, True, True, False, False, False, False], 1, None, 0,
                 2, 0)
    return n + 8

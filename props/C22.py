"""C22 — broadcasts override in precedence order and persist exactly."""
from types import SimpleNamespace as NS

from vf.api import Ob, sl, SLICE, concrete, fork_int, fork_bool, Stub
from vf import fx

from cylc.flow.broadcast_mgr import BroadcastMgr
from cylc.flow.id import Tokens
from cylc.flow.run_modes import RunMode
from cylc.flow.workflow_db_mgr import WorkflowDatabaseManager

META = dict(
    level='model_checking',
    text='Bounded symbolic execution of the real BroadcastMgr.put_broadcast / '
         'clear_broadcast / expire_broadcast / get_broadcast / _prune and the '
         'real WorkflowDatabaseManager.put_broadcast + '
         'BroadcastMgr.load_db_broadcast_states over symbolic histories: each '
         'operation\'s kind, target cycle (* or a point), namespace (root, a '
         'family, a member task), setting (scalar key, nested environment '
         'key, or a multi-key dictionary as the API may submit) and value are '
         'symbolic. z3 decides on every path that what each task receives '
         'equals a reference fold (last write wins per (cycle, namespace, '
         'key); all-cycle before own-cycle; root, family, task in that '
         'order), that clear removes exactly the targeted settings, that '
         'expiry removes exactly the cycle-specific entries before the '
         'cutoff, and that replaying the rows handed to the broadcast_states '
         'table into a fresh manager reproduces the broadcast state exactly.',
    note='fixture "queues" (family FAM = {d, e}); cycles *, 1, 2; 2 '
         'operations quick / 3 thorough; values are short concrete strings '
         'chosen by index; the broadcast_states table is a dictionary model '
         'keyed (point, namespace, key) with deletes applied before inserts '
         'as CylcWorkflowDAO does.',
    functions=['BroadcastMgr.put_broadcast', 'clear_broadcast',
               'expire_broadcast', 'get_broadcast', '_prune',
               'load_db_broadcast_states', 'addict',
               'WorkflowDatabaseManager.put_broadcast',
               'get_broadcast_change_iter', 'BroadcastConfigValidator'],
    bounds=['operations: put (3 cycles x 3 namespaces x 4 settings x 3 '
            'values incl. the empty string), clear (cycle/namespace filters, optional key), expire '
            '(cutoff 1..3); 2 quick / 3 thorough (the third operation: any clear '
            'or expire)'],
    stubs=['scheduler stand-in (config, run mode)', 'data_store_mgr',
           'broadcast_states table: dictionary model'],
    assumptions=[],
    outside=['GraphQL layer', 'ext-triggers', 'datetime points'],
)

CFG = fx.cfg('queues')
CYCLES = ['*', '1', '2']
NSS = ['root', 'FAM', 'd']
SETTINGS = [
    lambda v: {'script': v},
    lambda v: {'environment': {'A': v}},
    lambda v: {'environment': {'B': v}},
    lambda v: {'environment': {'A': v, 'B': v and v + 'b'}},     # multi-key
]
VALS = ['v1', 'v2', '']          # '' = a legitimate falsy value
ANC = {'d': ['d', 'FAM', 'root'], 'a': ['a', 'root']}


def mkmgr():
    db = WorkflowDatabaseManager()
    db.pri_dao = db.pub_dao = None
    schd = NS(get_run_mode=lambda: RunMode.LIVE, workflow_db_mgr=db,
              data_store_mgr=Stub('ds'), config=CFG)
    mgr = BroadcastMgr(schd)
    mgr.linearized_ancestors = CFG.get_linearized_ancestors()
    return mgr, db


def leaves(setting, prefix=()):
    for k, v in setting.items():
        if isinstance(v, dict):
            yield from leaves(v, prefix + (k,))
        else:
            yield prefix + (k,), v


def apply_table(db, table):
    T = db.TABLE_BROADCAST_STATES
    for where in db.db_deletes_map[T]:
        table.pop((where['point'], where['namespace'], where['key']), None)
    for row in db.db_inserts_map[T]:
        table[(row['point'], row['namespace'], row['key'])] = row['value']
    for m in (db.db_deletes_map, db.db_inserts_map, db.db_updates_map):
        for lst in m.values():
            del lst[:]


def nested(model):
    """Reference state -> the nested dict form of BroadcastMgr.broadcasts."""
    out = {}
    for (cy, ns, path), v in model.items():
        d = out.setdefault(cy, {}).setdefault(ns, {})
        for k in path[:-1]:
            d = d.setdefault(k, {})
        d[path[-1]] = v
    return out


def receive(model, task, cycle):
    """Reference fold: what `task` at `cycle` receives."""
    ret = {}
    for cy in ('*', cycle):
        for ns in reversed(ANC[task]):
            for (c2, n2, path), v in model.items():
                if c2 == cy and n2 == ns:
                    d = ret
                    for k in path[:-1]:
                        d = d.setdefault(k, {})
                    d[path[-1]] = v
    return ret


def _run(ops):
    mgr, db = mkmgr()
    table = {}
    model = {}                 # (cycle, ns, keypath) -> value
    for (kind, ci, ni, si, vi) in ops:
        cy, ns, val = CYCLES[ci], NSS[ni], VALS[vi]
        if kind == 0:
            setting = SETTINGS[si](val)
            mgr.put_broadcast([cy], [ns], [setting])
            for path, v in leaves(setting):
                model[(cy, ns, path)] = v
        elif kind == 1:
            # clear: by cycle and namespace (si odd: only the script key)
            cancel = [{'script': None}] if si % 2 else None
            mgr.clear_broadcast([cy], [ns], cancel)
            for key in list(model):
                if key[0] == cy and key[1] == ns and (
                        cancel is None or key[2] == ('script',)):
                    del model[key]
        else:
            cutoff = ci + 1
            mgr.expire_broadcast(cutoff)
            for key in list(model):
                if key[0] != '*' and int(key[0]) < cutoff:
                    del model[key]
        apply_table(db, table)
        if mgr.broadcasts != nested(model):
            return False
        for task in ('d', 'a'):
            for cyc in ('1', '2'):
                got = mgr.get_broadcast(Tokens(cycle=cyc, task=task))
                if got != receive(model, task, cyc):
                    return False
        # restart: rows of the table replayed into a fresh manager
        m2, _ = mkmgr()
        for i, ((p, n, k), v) in enumerate(sorted(table.items())):
            m2.load_db_broadcast_states(i, (p, n, k, v))
        m2.post_load_db_coerce()
        if m2.broadcasts != mgr.broadcasts:
            return False
    return True


def history(k1: int, c1: int, n1: int, s1: int, v1: int,
            k2: int, c2: int, n2: int, s2: int, v2: int,
            k3: int, c3: int, n3: int, s3: int, v3: int,
            k4: int, c4: int, n4: int, s4: int, v4: int) -> bool:
    """
    pre: sl(s1=s1, c1=c1)
    pre: k1 == 0 and 0 <= k2 <= 2 and 0 <= k3 <= 2 and 0 <= k4 <= 2
    pre: 0 <= c1 <= 2 and 0 <= c2 <= 2 and 0 <= c3 <= 2 and 0 <= c4 <= 2
    pre: 0 <= n1 <= 2 and 0 <= n2 <= 2 and 0 <= n3 <= 2 and 0 <= n4 <= 2
    pre: 0 <= s1 <= 3 and 0 <= s2 <= 3 and 0 <= s3 <= 3 and 0 <= s4 <= 3
    pre: 0 <= v1 <= 2 and 0 <= v2 <= 2 and 0 <= v3 <= 2 and 0 <= v4 <= 2
    pre: v1 in (0, 2) and (k2 == 0 or (v2 == 0 and s2 <= 1))
    pre: (k3 == 0 or (v3 == 0 and s3 <= 1)) and (k4 == 0 or (v4 == 0 and s4 <= 1))
    pre: (k2 != 2 or n2 == 0) and (k3 != 2 or n3 == 0) and (k4 != 2 or n4 == 0)
    pre: SLICE['n'] >= 4 or (k4 == 0 and c4 == 0 and n4 == 0 and s4 == 0 and v4 == 0)
    pre: SLICE['n'] >= 3 or (k3 == 0 and c3 == 0 and n3 == 0 and s3 == 0 and v3 == 0)
    pre: SLICE['n'] < 3 or k3 != 0
    post: _
    """
    raw = [(k1, c1, n1, s1, v1), (k2, c2, n2, s2, v2), (k3, c3, n3, s3, v3),
           (k4, c4, n4, s4, v4)][:SLICE['n']]
    ops = [(fork_int(k, 0, 2), fork_int(c, 0, 2), fork_int(n, 0, 2),
            fork_int(s, 0, 3), fork_int(v, 0, 2)) for k, c, n, s, v in raw]
    with concrete():
        return _run(ops)


def OBLIGATIONS(tier):
    big = tier == 'thorough'
    t = 1800 if big else 170
    return [Ob(f'history[s1={s1},c1={c1}]', 'history', timeout=t,
               twin=(s1 == 0 and c1 == 0),
               slice={'s1': s1, 'c1': c1, 'n': 3 if big else 2})
            for s1 in range(4) for c1 in range(3)]


def VALIDATE():
    n = 0
    # tests/integration/test_broadcast_mgr.py / unit style literals
    assert _run([(0, 0, 0, 0, 0), (0, 1, 2, 1, 1), (1, 0, 0, 0, 0)])
    assert _run([(0, 1, 1, 2, 0), (0, 2, 2, 0, 1), (2, 1, 0, 0, 0)])
    assert _run([(0, 0, 2, 1, 0), (0, 0, 2, 2, 1), (1, 0, 2, 1, 0)])
    return n + 3

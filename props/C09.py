"""C09 — task status transitions follow the lifecycle; outputs are
monotone."""
from vf.api import Ob, sl, concrete, SLICE, within
from props._msg import ET  # noqa
from props._msg import (
    MSGS, ST, RANK, TARGET, FLAGS, TIMERS, setup, snap, outputs_of, invariant,
    CFG, retry_lined_up)

META = dict(
    level='model_checking',
    text='One-step bounded symbolic execution of the real '
         'TaskEventsManager.process_message / TaskState.reset / TaskOutputs '
         'on a real TaskProxy from an over-approximated pre-state; for every '
         'status x message x flag x retry-timer configuration z3 decides '
         'that the (old,new) status pair is an edge of the lifecycle '
         'relation, that a return to waiting happens only with a retry '
         'consumed, that completed outputs only grow and that the outputs '
         'invariant (finished => submitted & started) is preserved.',
    note='Inductive one-step lemma (any history is a sequence of such steps) '
         'under the listed event/state assumptions; waiting->preparing is '
         'done by TaskJobManager (outside); poll results may move status '
         'backwards by design and are only checked for output monotonicity '
         '(C10). Collaborators are recording stubs.',
    functions=[
        'TaskEventsManager.process_message (+ all _process_message_*)',
        'TaskState.reset', 'TaskProxy.state_reset',
        'TaskOutputs.set_message_complete/get_incomplete_implied',
        'TaskActionTimer.next', 'TaskEventsManager._retry_task',
    ],
    bounds=['status: all 8; 11 message forms; flags INTERNAL and RECEIVED',
            'submit number 2 (thorough 1..3); 7 retry-timer configurations',
            'pre-state outputs: symbolic submitted/started bits plus outputs '
            'implied by the status'],
    stubs=['workflow_db_mgr', 'data_store_mgr', 'proc_pool', 'broadcast_mgr',
           'xtrigger_mgr', 'setup_event_handlers', '_reset_job_timers',
           'spawn_func (recorded)', 'task_action_timer.time() = constant'],
    assumptions=[
        'internal "expired" is sent only to waiting tasks (clock_expire: C32)',
        'internal "submission failed" only while preparing or submitted; '
        'internal started/succeeded/failed only while preparing, submitted '
        'or running (simulation / kill callbacks)',
        'job messages reach a waiting task only with a retry lined up '
        '(they are then ignored); no manual intervention (forced=False)',
        'a job reports at most one of succeeded / failed',
        'pre-state invariant: failed (submit-failed) tasks have no execution '
        '(submission) retry left - the only way the status is entered',
        'job vacation messages (deprecated loadleveler feature) move a task '
        'back to submitted by design: checked for outputs only',
        'a job that was reported submit-failed but did start may still '
        'report started/succeeded/failed (submit-failed counts as the '
        'submitted level)',
    ],
    outside=['waiting -> preparing (TaskJobManager.prep_submit_task_jobs)',
             'whole interleavings'],
)

LEVEL = {'waiting': 0, 'preparing': 1, 'submitted': 2, 'submit-failed': 2,
         'running': 3, 'succeeded': 4, 'failed': 4, 'expired': 5}
FAILS = ('failed', 'failed/XCPU', 'aborted/oops', 'submission failed')


def lifecycle(st: int, msg: int, flag: int, cur: int, c_sub: bool,
              c_sta: bool, tm: int) -> bool:
    """
    pre: sl(st=st, flag=flag)
    pre: 0 <= st < 8 and 0 <= msg < len(MSGS) and 0 <= flag <= 1
    pre: within(cur=cur) and 0 <= tm < len(TIMERS)
    post: _
    """
    m, old = MSGS[msg], ST[st]
    internal = flag == 0
    # --- event/state pairs the scheduler can produce (see META.assumptions)
    if m == 'expired' and (not internal or old != 'waiting'):
        return True
    if internal:
        if m == 'submission failed' and old not in ('preparing', 'submitted'):
            return True
        if m in ('started', 'succeeded', 'failed', 'failed/XCPU',
                 'aborted/oops', 'vacated/USR1', 'xx', 'hello') and old not in (
                'preparing', 'submitted', 'running'):
            return True
        if m == 'submitted' and old in ('waiting', 'expired', 'submit-failed'):
            return True
    else:
        if old == 'waiting' and not retry_lined_up(tm):
            return True
        if old == 'expired':
            return True      # an expired task never had a job
    if (old, m) in (('failed', 'succeeded'), ('succeeded', 'failed')):
        return True
    en, sn = TIMERS[tm]
    if old == 'failed' and en is not None and en < 2:
        return True     # failed is only entered with retries exhausted
    if old == 'submit-failed' and sn is not None and sn < 1:
        return True     # ditto submit-failed
    mgr, itask = setup(st, cur, c_sub, c_sta, tm)
    outs = outputs_of(itask)
    before = snap(itask)
    mgr.process_message(itask, 'INFO', m, ET, FLAGS[flag], cur)
    after = snap(itask)
    new = after[0]
    if not (outs <= outputs_of(itask)) or not invariant(itask):
        return False
    if new == old or m == 'vacated/USR1':
        return True
    if new == 'waiting':
        # only an automatic retry: a failure message, and one retry consumed
        if old not in ('preparing', 'submitted', 'submit-failed',
                       'running') or m not in FAILS:
            return False
        key = ('submission-retry' if m == 'submission failed'
               else 'execution-retry')
        nb = dict(before[2])
        na = dict(after[2])
        return key in nb and na[key] == nb[key] + 1
    if new == 'expired':
        return old == 'waiting' and m == 'expired'
    if new == 'submit-failed':
        return old in ('preparing', 'submitted') and m == 'submission failed'
    if old in ('waiting', 'expired', 'succeeded', 'failed'):
        return False
    if new == 'failed' and m not in FAILS:
        return False
    # forward along the lifecycle, to the status the message stands for
    return LEVEL[new] > LEVEL[old] or (
        old == 'submit-failed' and LEVEL[new] >= 3) and new == TARGET[m]


def final_outputs(st: int, msg: int, flag: int, c_sub: bool, c_sta: bool,
                  tm: int) -> bool:
    """
    pre: sl(st=st)
    pre: 2 <= st < 8 and 0 <= msg < len(MSGS) and 0 <= flag <= 2
    pre: 0 <= tm < len(TIMERS)
    post: _
    """
    # whenever a message leaves the task succeeded / failed / submit-failed /
    # expired, the corresponding output is complete (status and outputs
    # agree), and failed/submit-failed outputs are completed only when no
    # retry remained
    m = MSGS[msg]
    if m == 'expired':
        return True
    mgr, itask = setup(st, 2, c_sub, c_sta, tm)
    old = ST[st]
    had = outputs_of(itask)
    mgr.process_message(itask, 'INFO', m, ET, FLAGS[flag], 2)
    new = itask.state.status
    o = outputs_of(itask)
    if new != old and new in ('succeeded', 'failed', 'submit-failed'):
        if new not in o:
            return False
    for out, key, nmax in (('failed', 0, 2), ('submit-failed', 1, 1)):
        if out in o and out not in had:
            num = TIMERS[tm][key]
            if num is not None and num < nmax:
                return False     # a retry remained
            if (itask.identity, out) not in mgr.spawned:
                return False     # children of the output were not spawned
    return True


def OBLIGATIONS(tier):
    big = tier == 'thorough'
    t = 1200 if big else 150
    B = {'cur': [1, 3]} if big else {'cur': [2, 2]}
    obs = []
    for st in range(8):
        for flag in (0, 1):
            obs.append(Ob(f'lifecycle[st={ST[st]},flag={flag}]', 'lifecycle',
                          timeout=t, slice={'st': st, 'flag': flag, 'B': B}))
        if st >= 2:
            obs.append(Ob(f'final_outputs[st={ST[st]}]', 'final_outputs',
                          timeout=t, slice={'st': st}))
    return obs


def VALIDATE():
    n = 0
    SLICE['B'] = {'cur': [1, 3]}
    for st in range(8):
        for msg in range(len(MSGS)):
            for flag in (0, 1):
                for tm in (0, 1, 3, 5):
                    assert lifecycle(st, msg, flag, 2, False, False, tm), (
                        ST[st], MSGS[msg], flag, tm)
                    n += 1
            if st >= 2:
                for tm in range(len(TIMERS)):
                    assert final_outputs(st, msg, 1, False, True, tm), (
                        ST[st], MSGS[msg], tm)
                    n += 1
    return n

"""C34 — parameter expansion yields exactly the Cartesian product."""
import itertools

from vf.api import Ob, sl, SLICE, concrete, fork_int, fork_bool

from cylc.flow.graph_parser import GraphParser
from cylc.flow.param_expand import GraphExpander, NameExpander

META = dict(
    level='model_checking',
    technique='bounded symbolic execution (CrossHair + z3) over symbolic '
              'parameter-list sizes, template choices and line-shape '
              'indices (the solver certifies that every combination in the '
              'bounded family was generated); the real expanders run on each '
              'and are compared with an independently written product',
    text='Parameter sets (an integer parameter p with 1..3 values, a string '
         'parameter q with 1..2 values, a second integer parameter r with 2 '
         'values; default-style or custom templates) and graph lines / '
         'runtime headings assembled from symbolic node shapes (plain, <p>, '
         '<p,q>, <q,p>, <p-1>, <p-1,q>, <p=V>, <q=V>, <p,r>, <p+1>, <q-1>, '
         '<q-1,p>; the string list is deliberately not in sorted order) are '
         'passed to the real GraphExpander.expand, NameExpander.expand and '
         'GraphParser.parse_graph. z3 decides on every path that the '
         'expanded set equals the reference product: exactly one line / name '
         'per combination of the values of the parameters used, fixed values '
         'select only that value, offsets refer to the neighbouring value in '
         'list order, and - through the graph parser - an offset node with no '
         'such value is dropped (the chain is cut there) while every other '
         'dependency appears exactly once.',
    note='the expanders are regex / string-template code: lines are concrete '
         'texts chosen by symbolic indices; parameter values are small '
         'integers and short words.',
    functions=['GraphExpander.expand', 'GraphExpander._expand_graph',
               'NameExpander.expand', 'NameExpander._expand_name',
               'GraphParser.parse_graph (REC_NODE_OUT_OF_RANGE)',
               'item_in_iterable'],
    bounds=['|p| in 1..3, |q| in 1..3 (quick: 1 and 3), |r| = 2; two template styles; node '
            'shapes: 12; lines: left node => right node (+ & third node); '
            'headings: one or two names'],
    stubs=['none'],
    assumptions=[],
    outside=['config-level parsing of [task parameters] (ranges, default '
             'templates)', 'parameters in family inheritance lists '
             '(expand_parent_params)', 'xtrigger / workflow-state nodes'],
)

P_ALL = [0, 1, 2]
Q_ALL = ['dog', 'cat', 'ant']      # string lists keep the user's order
R_ALL = [5, 7]
TEMPLATES = [
    {'p': '_p%(p)s', 'q': '_%(q)s', 'r': '_r%(r)s'},
    {'p': '_p%(p)02d', 'q': '-%(q)s', 'r': 'r%(r)d'},
]
REMOVE = -32768

# node shapes: list of (param, kind, arg); kind: 'v' loop value, 'o' offset,
# '=' fixed value
SHAPES = [
    [],
    [('p', 'v', None)],
    [('p', 'v', None), ('q', 'v', None)],
    [('q', 'v', None), ('p', 'v', None)],
    [('p', 'o', -1)],
    [('p', 'o', -1), ('q', 'v', None)],
    [('p', '=', 1)],
    [('q', '=', 'dog')],
    [('p', 'v', None), ('r', 'v', None)],
    [('p', 'o', +1)],
    [('q', 'o', -1)],
    [('q', 'o', -1), ('p', 'v', None)],
]


def text(name, shape):
    if not shape:
        return name
    items = []
    for pn, kind, arg in shape:
        if kind == 'v':
            items.append(pn)
        elif kind == 'o':
            items.append(f'{pn}{arg:+d}')
        else:
            items.append(f'{pn}={arg}')
    return f"{name}<{','.join(items)}>"


def render(name, shape, env, params, tmpl):
    """Reference rendering of one node for one combination of values."""
    out = name
    for pn, kind, arg in shape:
        if kind == 'v':
            val = env[pn]
        elif kind == '=':
            val = arg
        else:
            vals = params[pn]
            i = vals.index(env[pn]) + arg
            val = vals[i] if 0 <= i < len(vals) else REMOVE
        out += tmpl[pn] % {pn: val}
    return out


def used(shapes):
    seen = []
    for shape in shapes:
        for pn, _k, _a in shape:
            if pn not in seen:
                seen.append(pn)
    return seen


def valid(shape, params):
    return all(kind != '=' or arg in params[pn] for pn, kind, arg in shape)


def _graph(np_, nq, ti, s1, s2, s3, amp):
    params = {'p': P_ALL[:np_], 'q': Q_ALL[:nq], 'r': R_ALL}
    tmpl = TEMPLATES[ti]
    nodes = [('a', SHAPES[s1]), ('b', SHAPES[s2])]
    if amp:
        nodes.append(('c', SHAPES[s3]))
    if not all(valid(sh, params) for _n, sh in nodes):
        return True                   # (fixed value not in the list: error)
    line = f'{text(*nodes[0])} => {text(*nodes[1])}'
    if amp:
        line = f'{text(*nodes[0])} & {text(*nodes[2])} => {text(*nodes[1])}'
    strparams = {k: list(v) for k, v in params.items()}
    got = GraphExpander((strparams, tmpl)).expand(line)
    names = used([sh for _n, sh in nodes])
    want = set()
    for combo in itertools.product(*[params[n] for n in names]):
        env = dict(zip(names, combo))
        r = [render(n, sh, env, params, tmpl) for n, sh in nodes]
        if amp:
            want.add(f'{r[0]} & {r[2]} => {r[1]}')
        else:
            want.add(f'{r[0]} => {r[1]}')
    if got != want:
        return False
    if len(got) > len(list(itertools.product(
            *[params[n] for n in names]))):
        return False
    # through the graph parser: out-of-range nodes dropped, the rest intact
    gp = GraphParser(parameters=(strparams, tmpl))
    gp.parse_graph(line)
    want_dep = {}
    for combo in itertools.product(*[params[n] for n in names]):
        env = dict(zip(names, combo))
        r = [render(n, sh, env, params, tmpl) for n, sh in nodes]
        left = [x for x in ([r[0], r[2]] if amp else [r[0]])
                if str(REMOVE) not in x]
        if str(REMOVE) in r[1] or not left:
            # the chain is cut at a removed node; what is left of it stays
            for x in left:
                want_dep.setdefault(x, set())
            continue
        for x in left:
            want_dep.setdefault(x, set())
        for x in left:
            # (the parser keeps one prerequisite per &-term)
            want_dep.setdefault(r[1], set()).add(
                frozenset([f'{x}:succeeded']))
    got_dep = {}
    for task, trigs in gp.triggers.items():
        got_dep[task] = {frozenset(t) for _e, (t, _s) in trigs.items() if t}
    return got_dep == want_dep


def _names(np_, nq, ti, s1, s2, two):
    params = {'p': P_ALL[:np_], 'q': Q_ALL[:nq], 'r': R_ALL}
    tmpl = TEMPLATES[ti]
    shapes = [SHAPES[s1]] + ([SHAPES[s2]] if two else [])
    if not all(valid(sh, params) for sh in shapes):
        return True
    heading = ', '.join(text(n, sh) for n, sh in zip(('foo', 'bar'), shapes))
    got = NameExpander((params, tmpl)).expand(heading)
    want = []
    for n, sh in zip(('foo', 'bar'), shapes):
        loop = [pn for pn, kind, _a in sh if kind == 'v']
        fixed = {pn: arg for pn, kind, arg in sh if kind == '='}
        for combo in itertools.product(*[params[x] for x in loop]):
            env = dict(zip(loop, combo))
            env.update(fixed)
            want.append((render(n, sh, env, params, tmpl),
                         env if sh else {}))
    key = lambda x: (x[0], sorted(x[1].items()))      # noqa: E731
    return sorted(got, key=key) == sorted(want, key=key) and (
        len({g[0] for g in got}) == len(got))


def graph(np_: int, nq: int, ti: int, s1: int, s2: int, s3: int,
          amp: bool) -> bool:
    """
    pre: sl(s1=s1)
    pre: 1 <= np_ <= 3 and 1 <= nq <= 3 and 0 <= ti <= 1
    pre: 0 <= s1 < 12 and 0 <= s2 < 12 and 0 <= s3 < 12
    pre: SLICE.get('full', True) or (np_ != 2 and nq != 2)
    pre: amp or s3 == 0
    post: _
    """
    np_, nq, ti = fork_int(np_, 1, 3), fork_int(nq, 1, 3), fork_int(ti, 0, 1)
    s1, s2, s3 = (fork_int(s1, 0, 11), fork_int(s2, 0, 11),
                  fork_int(s3, 0, 11))
    amp = fork_bool(amp)
    with concrete():
        return _graph(np_, nq, ti, s1, s2, s3, amp)


def names(np_: int, nq: int, ti: int, s1: int, s2: int, two: bool) -> bool:
    """
    pre: 1 <= np_ <= 3 and 1 <= nq <= 3 and 0 <= ti <= 1
    pre: s1 in (0, 1, 2, 3, 6, 7, 8) and s2 in (0, 1, 2, 3, 6, 7, 8)
    pre: two or s2 == 0
    post: _
    """
    np_, nq, ti = fork_int(np_, 1, 3), fork_int(nq, 1, 3), fork_int(ti, 0, 1)
    s1, s2 = fork_int(s1, 0, 8), fork_int(s2, 0, 8)
    two = fork_bool(two)
    with concrete():
        return _names(np_, nq, ti, s1, s2, two)


def OBLIGATIONS(tier):
    big = tier == 'thorough'
    t = 1200 if big else 170
    return [Ob(f'graph[left-shape={s}]', 'graph', timeout=t, twin=(s == 0),
               slice={'s1': s, 'full': big}) for s in range(12)] + [
        Ob('names', 'names', timeout=t)]


def VALIDATE():
    n = 0
    # tests/unit/test_param_expand.py literals
    ge = GraphExpander(({'i': [0, 1], 'j': [0, 1, 2]},
                        {'i': '_i%(i)s', 'j': '_j%(j)s'}))
    assert ge.expand('bar<i-1,j>=>baz<i,j>') >= {
        'bar_i-32768_j0=>baz_i0_j0', 'bar_i0_j1=>baz_i1_j1'}
    assert _graph(3, 2, 0, 4, 1, 0, False)      # a<p-1> => b<p>
    assert _graph(2, 2, 1, 2, 5, 7, True)
    assert _names(3, 2, 0, 2, 6, True)
    return n + 4

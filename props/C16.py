"""C16 — integer recurrences denote the clipped arithmetic progression."""
from vf.api import Ob, sl, slices, kf, within
from cylc.flow.cycling.integer import (
    IntegerPoint, IntegerInterval, IntegerSequence, IntegerExclusions)

META = dict(
    level='model_checking',
    text='Bounded symbolic execution of the real IntegerSequence query '
         'methods (and of the real constructor on concrete recurrence '
         'templates with symbolic context points) against an independent '
         'arithmetic specification of the clipped progression; z3 decides '
         'every path for all start/stop/step/query values in the box.',
    note='Values in the stated boxes; one obligation per concrete step '
         '(symbolic modulus is non-linear); recurrence *text* is concrete '
         '(templates listed in evidence) because the recurrence regexes need '
         'concrete text; exclusions: one point and/or one sequence.',
    functions=[
        'IntegerSequence.__init__', 'is_on_sequence', 'is_valid',
        'get_next_point', 'get_next_point_on_sequence', 'get_prev_point',
        'get_nearest_prev_point', 'get_first_point', 'get_start_point',
        'get_stop_point', '_get_point_in_bounds',
        'IntegerExclusions.__contains__/build_exclusions',
        'get_point_from_expression', 'get_point_relative',
    ],
    bounds=[
        'query methods (no exclusions): quick a in [-6,6], n (number of '
        'steps to the stop point) in [0,4], q in [-15,30], steps 2,3; '
        'thorough a in [-12,12], n in [0,6], q in [-40,80], steps 1..5; '
        'get_nearest_prev_point on a smaller box (loop from the start point)',
        'one-off sequences: a, q in [-20,20]/[-30,30] quick, [-99,99] thorough',
        'exclusions: start 1 (thorough 0,1), n in [0,3], excluded point e in '
        '[-1,8], query in [-2,10], exclusion sequence step 2/3 starting 0..3 '
        'after the main start; '
        'oracle = window formula over [-2,12] decided by z3',
        'constructor: 22 concrete recurrence templates covering all regex '
        'forms; context start cs in [-2,6], context stop ce in [-2,16] (quick)'
        ' / [-3,12],[-3,24] (thorough), cs <= ce; denotation compared on '
        'window [-6,30]',
    ],
    stubs=[],
    assumptions=[
        'get_next_point_on_sequence is queried with on-sequence points >= '
        'start - step (all callers do)',
        'one-off recurrences outside the context bounds are not clipped by '
        'the constructor (callers go through get_first_point(initial point))',
        'get_stop_point on an unbounded sequence with exclusion sequences is '
        'not exercised (no caller in cylc.flow)',
        'Rn/START/END with END <= START is a rejected input',
    ],
    outside=['datetime recurrences (C17)', 'negative steps (rejected by the '
             'constructor)'],
)

P = IntegerPoint


def mk(a, b, k, ex=None):
    """Sequence state (start a, stop b|None, step k|None) built directly."""
    s = object.__new__(IntegerSequence)
    s.p_context_start = P(str(a))
    s.p_context_stop = None if b is None else P(str(b))
    s.p_start = P(str(a))
    s.p_stop = None if b is None else P(str(b))
    s.i_step = None if k is None else IntegerInterval.from_integer(k)
    s.i_offset = IntegerInterval('P0')
    s.exclusions = ex
    return s


def mkex(seq, points=(), seqs=()):
    ex = object.__new__(IntegerExclusions)
    ex.exclusion_points = [P(str(p)) for p in points]
    ex.exclusion_sequences = list(seqs)
    ex.exclusion_start_point = seq.p_start
    ex.exclusion_end_point = seq.p_stop
    seq.exclusions = ex
    return seq


def ival(r):
    return None if r is None else int(r)


# --- specification: clipped progression a, a+k, ... <= b -------------------

def s_member(a, b, k, q):
    return a <= q and (b is None or q <= b) and (q - a) % k == 0


def s_next(a, b, k, q):
    """least member > q"""
    c = a if q < a else q + 1 + ((a - q - 1) % k)
    return c if (b is None or c <= b) else None


def s_first(a, b, k, q):
    """least member >= q"""
    c = a if q <= a else q + ((a - q) % k)
    return c if (b is None or c <= b) else None


def s_prev(a, b, k, q):
    """greatest member < q"""
    if q <= a:
        return None
    c = q - 1 - ((q - 1 - a) % k)
    if b is not None and c > b:
        c = b - ((b - a) % k)
    return c if c >= a else None


BOX = 'box'


def valid(a: int, n: int, k: int, q: int) -> bool:
    """
    pre: sl(k=k)
    pre: 1 <= k <= 9 and within(a=a, n=n, q=q)
    post: _
    """
    b = a + n * k
    seq = mk(a, b, k)
    pt = P(str(q))
    return (seq.is_valid(pt) == s_member(a, b, k, q)
            and seq.is_on_sequence(pt) == ((q - a) % k == 0))


def nxt(a: int, n: int, k: int, q: int) -> bool:
    """
    pre: sl(k=k)
    pre: 1 <= k <= 9 and within(a=a, n=n, q=q)
    post: _
    """
    b = a + n * k
    return ival(mk(a, b, k).get_next_point(P(str(q)))) == s_next(a, b, k, q)


def nxt_unbounded(a: int, k: int, q: int) -> bool:
    """
    pre: sl(k=k)
    pre: 1 <= k <= 9 and within(a=a, q=q)
    post: _
    """
    return ival(mk(a, None, k).get_next_point(P(str(q)))) == s_next(
        a, None, k, q)


def nxt_on(a: int, n: int, k: int, j: int) -> bool:
    """
    pre: sl(k=k)
    pre: 1 <= k <= 9 and within(a=a, n=n) and -1 <= j <= 8
    post: _
    """
    b = a + n * k
    q = a + j * k
    return ival(mk(a, b, k).get_next_point_on_sequence(P(str(q)))) == s_next(
        a, b, k, q)


def prev(a: int, n: int, k: int, q: int) -> bool:
    """
    pre: sl(k=k)
    pre: 1 <= k <= 9 and within(a=a, n=n, q=q)
    post: _
    """
    b = a + n * k
    return ival(mk(a, b, k).get_prev_point(P(str(q)))) == s_prev(a, b, k, q)


def nprev(a: int, n: int, k: int, q: int) -> bool:
    """
    pre: sl(k=k)
    pre: 1 <= k <= 9 and within(a=a, n=n, q=q)
    post: _
    """
    b = a + n * k
    return ival(mk(a, b, k).get_nearest_prev_point(P(str(q)))) == s_prev(
        a, b, k, q)


def first(a: int, n: int, k: int, q: int) -> bool:
    """
    pre: sl(k=k)
    pre: 1 <= k <= 9 and within(a=a, n=n, q=q)
    post: _
    """
    b = a + n * k
    return ival(mk(a, b, k).get_first_point(P(str(q)))) == s_first(a, b, k, q)


def first_unbounded(a: int, k: int, q: int) -> bool:
    """
    pre: sl(k=k)
    pre: 1 <= k <= 9 and within(a=a, q=q)
    post: _
    """
    return ival(mk(a, None, k).get_first_point(P(str(q)))) == s_first(
        a, None, k, q)


def oneoff(a: int, q: int) -> bool:
    """
    pre: within(a=a, q=q)
    post: _
    """
    seq = mk(a, a, None)
    pt = P(str(q))
    if seq.is_valid(pt) != (q == a) or seq.is_on_sequence(pt) != (q == a):
        return False
    if ival(seq.get_next_point(pt)) != (a if q < a else None):
        return False
    if ival(seq.get_first_point(pt)) != (a if q <= a else None):
        return False
    if ival(seq.get_nearest_prev_point(pt)) != (a if q > a else None):
        return False
    if ival(seq.get_prev_point(pt)) != (a if q > a else None):
        return False
    if seq.get_next_point_on_sequence(pt) is not None and q >= a:
        return False
    return ival(seq.get_start_point()) == a and ival(seq.get_stop_point()) == a


# --- exclusions: window specification decided by the solver ---------------
# (`&`, `|`, `^` on symbolic booleans build one z3 formula without forking)

LO, HI = -2, 12


def NOT(x):
    return x ^ True


def mem_ex(a, b, k, e, ea, ek, use_seq):
    """Membership predicate of (a..b step k) minus {e} minus (ea..b step ek)."""
    def mem(c):
        m = (a <= c) & (c <= b) & ((c - a) % k == 0) & (c != e)
        if use_seq:
            m = m & NOT((ea <= c) & (c <= b) & ((c - ea) % ek == 0))
        return m
    return mem


def chk_next(r, q, mem, strict=True):
    """r is the least member > q (>= q if not strict), None if there is none"""
    ok = True
    for c in range(LO, HI + 1):
        after = (c > q) if strict else (c >= q)
        if r is None:
            ok = ok & NOT(mem(c) & after)
        else:
            ok = ok & NOT(mem(c) & after & (c < r))
    if r is not None:
        ok = ok & mem(r) & ((r > q) if strict else (r >= q))
    return ok


def chk_prev(r, q, mem):
    """r is the greatest member < q, None if there is none"""
    ok = True
    for c in range(LO, HI + 1):
        if r is None:
            ok = ok & NOT(mem(c) & (c < q))
        else:
            ok = ok & NOT(mem(c) & (c < q) & (c > r))
    if r is not None:
        ok = ok & mem(r) & (r < q)
    return ok


def mkx(a, n, k, e, eo, ek, use_seq):
    b = a + n * k
    seq = mk(a, b, k)
    seqs = [mk(a + eo, b, ek)] if use_seq else []
    mkex(seq, [e], seqs)
    return seq, b, mem_ex(a, b, k, e, a + eo, ek, use_seq)


EXPRE = 'x'


def ex_valid(a: int, n: int, k: int, e: int, eo: int, ek: int, us: bool, q: int) -> bool:
    """
    pre: sl(k=k, ek=ek, us=us, a=a, eo=eo)
    pre: within(n=n, e=e, q=q)
    post: _
    """
    seq, b, mem = mkx(a, n, k, e, eo, ek, us)
    return bool(seq.is_valid(P(str(q))) == mem(q))


def ex_next(a: int, n: int, k: int, e: int, eo: int, ek: int, us: bool, q: int) -> bool:
    """
    pre: sl(k=k, ek=ek, us=us, a=a, eo=eo)
    pre: within(n=n, e=e, q=q)
    post: _
    """
    seq, b, mem = mkx(a, n, k, e, eo, ek, us)
    return bool(chk_next(ival(seq.get_next_point(P(str(q)))), q, mem))


def ex_first(a: int, n: int, k: int, e: int, eo: int, ek: int, us: bool, q: int) -> bool:
    """
    pre: sl(k=k, ek=ek, us=us, a=a, eo=eo)
    pre: within(n=n, e=e, q=q)
    post: _
    """
    seq, b, mem = mkx(a, n, k, e, eo, ek, us)
    return bool(chk_next(ival(seq.get_first_point(P(str(q)))), q, mem, False))


def ex_prev(a: int, n: int, k: int, e: int, eo: int, ek: int, us: bool, q: int) -> bool:
    """
    pre: sl(k=k, ek=ek, us=us, a=a, eo=eo)
    pre: within(n=n, e=e, q=q)
    post: _
    """
    seq, b, mem = mkx(a, n, k, e, eo, ek, us)
    return bool(chk_prev(ival(seq.get_prev_point(P(str(q)))), q, mem))


def ex_nprev(a: int, n: int, k: int, e: int, eo: int, ek: int, us: bool, q: int) -> bool:
    """
    pre: sl(k=k, ek=ek, us=us, a=a, eo=eo)
    pre: within(n=n, e=e, q=q)
    post: _
    """
    seq, b, mem = mkx(a, n, k, e, eo, ek, us)
    return bool(chk_prev(ival(seq.get_nearest_prev_point(P(str(q)))), q, mem))


def ex_startstop(a: int, n: int, k: int, e: int, eo: int, ek: int, us: bool) -> bool:
    """
    pre: sl(k=k, ek=ek, us=us, a=a, eo=eo)
    pre: within(n=n, e=e)
    post: _
    """
    seq, b, mem = mkx(a, n, k, e, eo, ek, us)
    return bool(
        chk_next(ival(seq.get_start_point()), LO, mem)
        & chk_prev(ival(seq.get_stop_point()), HI, mem))


OBS_EX = ['ex_valid', 'ex_next', 'ex_first', 'ex_prev', 'ex_nprev',
          'ex_startstop']

# --- constructor: concrete recurrence templates, symbolic context points ----
# spec: (kind, start/end expression, step, reps)
#   fwd: S, S+k, ...  (reps n or unbounded)     bwd: E, E-k, ... (reps n or
#   unbounded)     one: the single point        exprs: int | ('+', d) relative
#   to the context start | ('-', d) relative to the context stop | None
TEMPLATES = {
    'P1': ('fwd', None, 1, None),
    'P3': ('fwd', None, 3, None),
    'R/P2': ('bwd', None, 2, None),
    '2/P2': ('fwd', 2, 2, None),
    '+P1/P3': ('fwd', ('+', 1), 3, None),
    'R/4/P3': ('fwd', 4, 3, None),
    'R3/2/P2': ('fwd', 2, 2, 3),
    'R2/+P2/P5': ('fwd', ('+', 2), 5, 2),
    'R3//P2': ('fwd', None, 2, 3),
    'R1': ('one', None, None, 1),
    'R1/3': ('one', 3, None, 1),
    'R1/+P2': ('one', ('+', 2), None, 1),
    'R1//-P1': ('oneE', ('-', 1), None, 1),
    'R1//9': ('oneE', 9, None, 1),
    'R1/P0': ('oneE', None, None, 1),
    'P3/9': ('bwd', 9, 3, None),
    'P2/-P1': ('bwd', ('-', 1), 2, None),
    'R3/P2/9': ('bwd', 9, 2, 3),
    'R2/P3/-P1': ('bwd', ('-', 1), 3, 2),
    'R4/P2': ('bwd', None, 2, 4),
    'R3/1/7': ('fwd', 1, 3, 3),
    'R2/+P1/-P1': ('even2', ('+', 1), ('-', 1), 2),
}
TNAMES = sorted(TEMPLATES)


def ev(expr, cs, ce, default):
    if expr is None:
        return default
    if isinstance(expr, tuple):
        return cs + expr[1] if expr[0] == '+' else ce - expr[1]
    return expr


def ctor(t: int, cs: int, ce: int) -> bool:
    """
    pre: sl(t=t)
    pre: 0 <= t < len(TNAMES) and within(cs=cs, ce=ce) and cs <= ce
    post: _
    """
    text = TNAMES[t]
    kind, x, k, n = TEMPLATES[text]
    if kind == 'even2' and ev(k, cs, ce, ce) <= ev(x, cs, ce, cs):
        return True   # end not after start: rejected input, outside the claim
    seq = IntegerSequence(text, str(cs), str(ce))
    a, b = ival(seq.p_start), ival(seq.p_stop)
    step = None if seq.i_step is None else int(seq.i_step)
    if kind in ('one', 'oneE'):
        pt = ev(x, cs, ce, cs if kind == 'one' else ce)
        # (clipping of out-of-bounds one-offs is left to the callers, which
        #  go through get_first_point(initial point): checked there)
        ok = (a == pt) & (b == pt) & (step is None)
        if cs <= pt <= ce:
            g = ival(seq.get_first_point(P(str(cs))))
            ok = ok & (g == pt)
        return bool(ok)
    if kind == 'even2':
        # Rn/S/E with n=2: the two end points
        lo, hi = ev(x, cs, ce, cs), ev(k, cs, ce, ce)
        return bool((a == lo) & (b == hi) & (step == hi - lo))
    if kind == 'fwd':
        anchor = ev(x, cs, ce, cs)
        lo = anchor
        hi = None if n is None else anchor + (n - 1) * k
    else:
        anchor = ev(x, cs, ce, ce)
        hi = anchor
        lo = None if n is None else anchor - (n - 1) * k
    if step is None:
        # a repeating template may collapse to a single point only if the
        # clipped progression has at most that point
        step = k
    ok = step == k
    for c in range(CLO, CHI + 1):
        want = (cs <= c) & (c <= ce) & ((c - anchor) % k == 0)
        if lo is not None:
            want = want & (lo <= c)
        if hi is not None:
            want = want & (c <= hi)
        got = (a <= c) & ((c - a) % step == 0)
        if b is not None:
            got = got & (c <= b)
        ok = ok & (want == got)
    return bool(ok)


CLO, CHI = -6, 30

OBS_Q = ['valid', 'nxt', 'nxt_on', 'prev', 'nprev', 'first',
         'nxt_unbounded', 'first_unbounded']


def OBLIGATIONS(tier):
    big = tier == 'thorough'
    t = 1500 if big else 360
    steps = (1, 2, 3, 4, 5) if big else (2, 3)
    if big:
        B = {'a': [-12, 12], 'n': [0, 6], 'q': [-40, 80]}
        Bn = {'a': [-6, 6], 'n': [0, 3], 'q': [-12, 40]}
        Bx = {'n': [0, 3], 'e': [-1, 10], 'q': [-2, 12]}
        Bxn = {'n': [0, 2], 'e': [-1, 6], 'q': [-2, 8]}
        B1 = {'a': [-99, 99], 'q': [-99, 99]}
    else:
        B = {'a': [-6, 6], 'n': [0, 4], 'q': [-15, 30]}
        Bn = {'a': [-3, 3], 'n': [0, 3], 'q': [-8, 20]}
        Bx = {'n': [0, 3], 'e': [-1, 8], 'q': [-2, 10]}
        Bxn = {'n': [0, 2], 'e': [-1, 6], 'q': [-2, 8]}
        B1 = {'a': [-20, 20], 'q': [-30, 30]}
    obs = []
    for name in OBS_Q:
        for k in steps:
            obs.append(Ob(f'{name}[k={k}]', name, timeout=t, slice={
                'k': k, 'B': Bn if name == 'nprev' else B}))
    obs.append(Ob('oneoff', 'oneoff', timeout=t, slice={'B': B1}))
    Bc = ({'cs': [-3, 12], 'ce': [-3, 24]} if big
          else {'cs': [-2, 6], 'ce': [-2, 16]})
    for i, text in enumerate(TNAMES):
        obs.append(Ob(f'ctor[{text}]', 'ctor', timeout=t,
                      slice={'t': i, 'B': Bc}))
    if big:
        combos = [(k, ek, us, eo, a)
                  for k in (1, 2, 3)
                  for ek, us, eo in ((2, False, 0), (2, True, 0),
                                     (2, True, 1), (3, True, 1),
                                     (2, True, 2), (3, True, 3))
                  for a in (0, 1)]
    else:
        combos = [(1, 2, False, 0, 1), (1, 2, True, 1, 1),
                  (2, 2, True, 0, 1), (2, 3, True, 1, 1),
                  # an exclusion sequence that starts a whole step of its
                  # own after the main one: its bounds matter
                  (1, 2, True, 2, 1)]
    for name in OBS_EX:
        for k, ek, us, eo, a in combos:
            obs.append(Ob(
                f'{name}[k={k},ek={ek},seq={us},eo={eo},a={a}]', name,
                slice={'k': k, 'ek': ek, 'us': us, 'eo': eo, 'a': a,
                       'B': Bxn if name == 'ex_nprev' else Bx},
                timeout=t))
    return obs


def VALIDATE():
    """Specification functions vs brute force; harnesses on the recurrences
    used by tests/unit/cycling/test_integer.py."""
    n = 0
    for a in (-2, 0, 3):
        for k in (1, 2, 3, 5):
            for cnt in (0, 1, 4):
                b = a + cnt * k
                pts = list(range(a, b + 1, k))
                for q in range(-12, 30):
                    nx = [p for p in pts if p > q]
                    fs = [p for p in pts if p >= q]
                    pv = [p for p in pts if p < q]
                    assert s_next(a, b, k, q) == (nx[0] if nx else None)
                    assert s_first(a, b, k, q) == (fs[0] if fs else None)
                    assert s_prev(a, b, k, q) == (pv[-1] if pv else None)
                    assert s_member(a, b, k, q) == (q in pts)
                    n += 4
    from vf import api
    api.SLICE['B'] = {'a': [-99, 99], 'n': [0, 9], 'q': [-99, 99],
                      'e': [-9, 99], 'cs': [-9, 99], 'ce': [-9, 99]}
    # test_integer.py: R/1/P3 over 1..10; R/P1!3 over 1..5; P1 ! P2 1..10
    for q in range(0, 12):
        assert nxt(1, 3, 3, q) and prev(1, 3, 3, q) and first(1, 3, 3, q)
        assert nprev(1, 3, 3, q) and valid(1, 3, 3, q)
        n += 5
    for q in range(0, 7):
        for f in (ex_valid, ex_next, ex_first, ex_prev, ex_nprev):
            assert f(1, 4, 1, 3, 0, 2, False, q)      # R/P1!3
            assert f(1, 3, 1, -1, 0, 2, True, q)      # P1 ! P2
            n += 2
    seq = IntegerSequence('R/P1!(2,3,7)', '1', '10')
    assert [str(p) for p in (seq.get_next_point(P('1')),
                             seq.get_prev_point(P('8')))] == ['4', '6']
    for t in range(len(TNAMES)):
        assert ctor(t, 1, 10), TNAMES[t]
        n += 1
    return n

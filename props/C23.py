"""C23 — universal identifiers round-trip."""
from vf.api import Ob, sl, SLICE, concrete, fork_int, fork_bool

from cylc.flow.id import (
    Tokens, tokenise, detokenise, legacy_tokenise, upgrade_legacy_ids)

META = dict(
    level='model_checking',
    technique='bounded symbolic execution (CrossHair + z3) over symbolic '
              'field-choice indices (the solver certifies that every token '
              'combination in the bounded family was generated); the real '
              'tokenise / detokenise run on each',
    text='Token dictionaries are assembled from symbolic choices: for each of '
         'user, workflow (flat and hierarchical), cycle, task a value out of '
         'a list of strings built from the separator-adjacent characters each '
         'field admits (dots, dashes, plus, digits, inner spaces, unicode, '
         '"@", "%", "~" in task names and selectors), a job number 1..12 or NN, which of the lower tokens are '
         'present, and which selectors are attached. z3 decides on every path '
         'that detokenise followed by the real tokenise returns the same '
         'tokens (job numbers zero-padded, selectors kept), that tokenise '
         'followed by detokenise of the rendered canonical string returns the '
         'same string, that the relative and absolute forms agree on the task '
         'part, and that legacy task.cycle and cycle/task identifiers upgrade '
         'to the equivalent relative tokens.',
    note='the identifier strings reach compiled regular expressions (C '
         'code), so fields are case-split to concrete strings (5 values per '
         'field) rather than kept as symbolic strings; cycle points contain '
         'no ":" (the cycle point format forbids it); whitespace only inside '
         'values (tokenise strips the ends).',
    functions=['Tokens.__init__/__eq__', 'tokenise', 'detokenise',
               'UNIVERSAL_ID / RELATIVE_ID regexes', 'legacy_tokenise',
               'upgrade_legacy_ids', '_dict_strip'],
    bounds=['5 values per field (7 task names) x presence of cycle/task/job x 3 selector '
            'bits x job in {1, 7, 12, NN}'],
    stubs=['none'],
    assumptions=['field values do not contain the separators "/", ":" '
                 '(workflow: "/" only between segments); user, workflow and '
                 'cycle contain no "~" (task names and selectors may)'],
    outside=['id_cli parsing of command-line arguments', 'glob characters'],
)

USERS = ['u', 'u.v', 'é', 'u v', '1']
WFS = ['w', 'a/b', 'a.b/c-1', 'w x/y', 'a/b/c']
CYCLES = ['1', '20000101T0000Z', '-1', '*', 'c.1']
TASKS = ['t', 't.1', 't-a', 't+b%c@d', 'foo.bar', 'a~b', '~t']
JOBS = ['1', '7', '12', 'NN']
SELS = ['s', 'succeeded', 'x~y']


def _roundtrip(ui, wi, ci, ti, ji, level, sels):
    toks = {'user': USERS[ui], 'workflow': WFS[wi]}
    if level >= 1:
        toks['cycle'] = CYCLES[ci]
    if level >= 2:
        toks['task'] = TASKS[ti]
    if level >= 3:
        toks['job'] = JOBS[ji]
    if sels[0]:
        toks['workflow_sel'] = SELS[0]
    if sels[1] and level >= 1:
        toks['cycle_sel'] = SELS[1]
    if sels[2] and level >= 2:
        toks['task_sel'] = SELS[2]
    t = Tokens(**toks)
    s = detokenise(t, selectors=True)
    back = tokenise(s)
    want = dict(toks)
    if 'job' in want and want['job'] != 'NN':
        want['job'] = f"{int(want['job']):02}"
    got = {k: v for k, v in back.items() if v is not None}
    if got != want:
        return False
    # canonical string -> tokens -> the same string
    if detokenise(back, selectors=True) != s:
        return False
    if Tokens(s) != Tokens(**want):
        return False
    # without selectors: the id is the selector-free rendering
    s0 = detokenise(t)
    plain = {k: v for k, v in want.items() if not k.endswith('_sel')}
    if {k: v for k, v in tokenise(s0).items() if v is not None} != plain:
        return False
    # relative and absolute forms agree on the task part
    if level >= 1:
        rel = {k: v for k, v in want.items()
               if k.split('_')[0] in ('cycle', 'task', 'job')}
        srel = detokenise(Tokens(**rel), selectors=True)
        if not s.endswith(srel[1:]) and not s.endswith(srel):
            return False
        if {k: v for k, v in tokenise(srel).items()
                if v is not None} != rel:
            return False
        srel2 = detokenise(Tokens(**rel), selectors=True, relative=True)
        if {k: v for k, v in tokenise(srel2, relative=True).items()
                if v is not None} != rel:
            return False
    return True


def roundtrip(ui: int, wi: int, ci: int, ti: int, ji: int, level: int,
              s0: bool, s1: bool, s2: bool) -> bool:
    """
    pre: sl(ui=ui, wi=wi)
    pre: 0 <= ui < 5 and 0 <= wi < 5 and 0 <= ci < 5 and 0 <= ti < 7
    pre: 0 <= ji < 4 and 0 <= level <= 3
    pre: level >= 3 or ji == 0
    pre: level >= 2 or ti == 0
    pre: level >= 1 or ci == 0
    post: _
    """
    ui, wi, ci, ti = (fork_int(ui, 0, 4), fork_int(wi, 0, 4),
                      fork_int(ci, 0, 4), fork_int(ti, 0, 6))
    ji, level = fork_int(ji, 0, 3), fork_int(level, 0, 3)
    sels = [fork_bool(b) for b in (s0, s1, s2)]
    with concrete():
        return _roundtrip(ui, wi, ci, ti, ji, level, sels)


LEG_CYCLES = ['1', '20000101T0000Z', '123', '2000']
LEG_TASKS = ['t', 'foo.bar', 't-a', 't.1']


def _legacy(ci, ti, sel, form):
    cyc, task = LEG_CYCLES[ci], LEG_TASKS[ti]
    legacy = f'{task}.{cyc}' if form == 0 else f'{cyc}/{task}'
    if sel:
        legacy += ':succeeded'
    want = {'cycle': cyc, 'task': task}
    if sel:
        want['task_sel'] = 'succeeded'
    toks = legacy_tokenise(legacy)
    if {k: v for k, v in toks.items() if v is not None} != want:
        return False
    if {k: v for k, v in tokenise(
            upgrade_legacy_ids(legacy, relative=True)[0],
            relative=True).items() if v is not None} != want:
        return False
    up = upgrade_legacy_ids('wf', legacy)
    if up != ['wf', '//' + cyc + '/' + task + (':succeeded' if sel else '')]:
        return False
    up = upgrade_legacy_ids(legacy, relative=True)
    return up == [cyc + '/' + task + (':succeeded' if sel else '')]


def legacy(ci: int, ti: int, sel: bool, form: int) -> bool:
    """
    pre: 0 <= ci < 4 and 0 <= ti < 4 and 0 <= form <= 1
    post: _
    """
    ci, ti, form = fork_int(ci, 0, 3), fork_int(ti, 0, 3), fork_int(form, 0, 1)
    sel = fork_bool(sel)
    with concrete():
        return _legacy(ci, ti, sel, form)


def OBLIGATIONS(tier):
    big = tier == 'thorough'
    t = 1200 if big else 170
    return [Ob(f'roundtrip[user={ui},wf={wi}]', 'roundtrip', timeout=t,
               twin=(ui == 0 and wi == 0), slice={'ui': ui, 'wi': wi})
            for ui in range(5) for wi in range(5)] + [
        Ob('legacy', 'legacy', timeout=t)]


def VALIDATE():
    n = 0
    # doctest literals of cylc.flow.id
    assert detokenise(tokenise('~u/w//c/t/01')) == '~u/w//c/t/01'
    assert tokenise('~u/w:a//c:b/t:c/01:d')['task_sel'] == 'c'
    assert _roundtrip(0, 0, 0, 0, 0, 3, [True, True, True])
    assert _roundtrip(3, 2, 1, 4, 3, 3, [False, False, True])
    assert _legacy(0, 0, True, 0) and _legacy(1, 1, False, 1)
    return n + 5

"""C32 — clock expiry only expires eligible tasks."""
from vf.api import Ob, sl, SLICE, concrete, fork_int
from vf import fx

import cylc.flow.task_proxy as _tp

META = dict(
    level='model_checking',
    text='Bounded symbolic execution of the real TaskPool.clock_expire_tasks '
         '-> TaskProxy.clock_expire -> TaskEventsManager.process_message'
         '(expired) -> TaskPool.spawn_on_output on a real pool: the wall '
         'clock, each task\'s expiry time (or none), status, manual-trigger '
         'flag and queued bit are symbolic; z3 decides every path: a task '
         'expires iff it is waiting, not manually triggered, has an expiry '
         'time and now >= that time; an expired task leaves its queue, is '
         'never queued / preparing afterwards, completes only the expired '
         'output and spawns exactly its expire children; ineligible tasks '
         'are untouched.',
    note='two pooled instances of one task (points 1, 2) plus children '
         'spawned for real; clock values 0..3; time() in task_proxy is the '
         'symbolic clock; expiry times are set on the proxies directly (the '
         'datetime arithmetic that derives them from clock-expire offsets '
         'is outside); data store / DB stubbed.',
    functions=['TaskPool.clock_expire_tasks', 'TaskProxy.clock_expire',
               'TaskEventsManager.process_message / _process_message_check',
               'TaskState.reset', 'TaskPool.spawn_on_output',
               'TaskPool.remove_if_complete', 'TaskQueueManager.remove_task', 'TaskPool.queue_or_trigger (manual '
               'trigger with the queue slot free or taken)'],
    bounds=['now, expiry times in 0..3 (or no expiry)', 'status: all 8',
            'manual flag, queued bit symbolic per task; 2 tasks'],
    stubs=['cylc.flow.task_proxy.time -> symbolic clock', 'data_store_mgr',
           'workflow_db_mgr', 'proc_pool', 'broadcast_mgr'],
    assumptions=['queued bit only for waiting tasks (queue_task is only '
                 'called on waiting tasks)'],
    outside=['TaskProxy.__init__ expire-time arithmetic (datetime cycling)',
             'expiry at every main-loop iteration of whole runs'],
)

CFG = fx.cfg('expire')
ST = fx.STATUSES


def expire(now: int, s1: int, s2: int, m1: bool, m2: bool, h1: bool,
           h2: bool, e1: int, e2: int, q1: bool, q2: bool) -> bool:
    """
    pre: sl(s1=s1)
    pre: 0 <= now <= 3 and 0 <= e1 <= 3 and 0 <= e2 <= 3
    pre: 0 <= s1 < 8 and 0 <= s2 < 8
    post: _
    """
    with concrete():
        pool = fx.pool(CFG, real_events=True)
        tem = pool.task_events_mgr
        spawned = []

        def spawn(itask, output, *a, **k):
            spawned.append((itask.identity, output))
            pool.spawn_on_output(itask, output)
        tem.spawn_func = spawn
        tasks = [fx.itask(CFG, 'a', 1), fx.itask(CFG, 'a', 2)]
        for t in tasks:
            t.state.is_runahead = False
            pool.add_to_pool(t)
    _tp.time = lambda: now
    spec = []
    for t, s, m, h, e, q in zip(tasks, (s1, s2), (m1, m2), (h1, h2),
                                (e1, e2), (q1, q2)):
        s = fork_int(s, 0, 7)
        t.state.status = ST[s]
        t.is_manual_submit = m
        t.expire_time = e if h else None
        if q and ST[s] == 'waiting':
            pool.queue_task(t)
        spec.append((ST[s] == 'waiting') & (m ^ True) & h & (now >= e))
    before = [(t.state.status, t.state.is_queued) for t in tasks]
    pool.clock_expire_tasks()
    for i, (t, want) in enumerate(zip(tasks, spec)):
        exp_out = t.state.outputs.is_message_complete('expired')
        n_spawn = len([1 for ident, o in spawned if ident == t.identity])
        if want:
            if t.state.status != 'expired' or t.state.is_queued:
                return False
            if any(x is t for q in pool.task_queue_mgr.queues.values()
                   for x in q.deque):
                return False
            if not exp_out or n_spawn != 1 or (
                    t.identity, 'expired') not in spawned:
                return False
            # exactly the expire child, prerequisite satisfied
            kids = [x.identity for x in pool.get_tasks()
                    if str(x.point) == str(t.point) and x.tdef.name != 'a']
            if kids != [f'{t.point}/e']:
                return False
            child = pool._get_task_by_id(f'{t.point}/e')
            if not child.state.prerequisites_all_satisfied():
                return False
            if any(x is t for x in pool.get_tasks()):
                return False          # complete (expired optional): removed
        else:
            if (t.state.status, t.state.is_queued) != before[i]:
                return False
            if n_spawn or (exp_out and before[i][0] != 'expired'):
                return False
            if not any(x is t for x in pool.get_tasks()):
                return False
    return True


def triggered(now: int, e2: int, h2: bool, s1: int, was_queued: bool,
              s2: int) -> bool:
    """
    pre: 0 <= now <= 3 and 0 <= e2 <= 3 and 0 <= s1 < 8 and 0 <= s2 <= 2
    post: _
    """
    # a manually triggered task (through the real queue_or_trigger, with the
    # single queue slot free or taken by another task) must never expire.
    with concrete():
        pool = fx.pool(CFG, real_events=True)
        tem = pool.task_events_mgr
        spawned = []

        def spawn(itask, output, *a, **k):
            spawned.append((itask.identity, output))
            pool.spawn_on_output(itask, output)
        tem.spawn_func = spawn
        t1, t2 = fx.itask(CFG, 'a', 1), fx.itask(CFG, 'a', 2)
        for t in (t1, t2):
            t.state.is_runahead = False
            pool.add_to_pool(t)
    _tp.time = lambda: now
    t1.state.status = ST[fork_int(s1, 0, 7)]
    # the triggered task: waiting, or a finished-incomplete task re-triggered
    t2.state.status = ['waiting', 'failed', 'submit-failed'][
        fork_int(s2, 0, 2)]
    t2.expire_time = e2 if h2 else None
    if was_queued and t2.state.status == 'waiting':
        pool.queue_task(t2)
    pool.queue_or_trigger(t2)
    if t2.state.status != 'waiting':
        return False
    pool.clock_expire_tasks()
    return (t2.state.status == 'waiting'
            and not t2.state.outputs.is_message_complete('expired')
            and (t2.identity, 'expired') not in spawned
            and any(x is t2 for x in pool.get_tasks()))


def OBLIGATIONS(tier):
    big = tier == 'thorough'
    t = 1200 if big else 150
    return [Ob(f'expire[s1={ST[s]}]', 'expire', timeout=t, slice={'s1': s})
            for s in range(8)] + [Ob('triggered', 'triggered', timeout=t)]


def VALIDATE():
    n = 0
    for s1 in range(8):
        SLICE['s1'] = s1
        assert expire(2, s1, 0, False, False, True, True, 1, 3, True, True)
        assert expire(0, s1, 0, True, False, True, False, 0, 0, False, True)
        n += 2
    SLICE.clear()
    assert triggered(3, 0, True, 5, False, 0)
    assert triggered(3, 0, True, 0, True, 1)
    n += 2
    return n

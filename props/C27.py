"""C27 — reload preserves task state."""
import json

from vf.api import Ob, sl, SLICE, concrete, fork_int, fork_bool
from vf import fx

META = dict(
    level='model_checking',
    text='Bounded symbolic execution of the real TaskPool.reload -> '
         '_reload_taskdefs -> TaskProxy.copy_to_reload_successor / '
         'check_task_output / _swap_out on a real pool against three new '
         'definitions (unchanged, extended by a prerequisite, shrunk by a '
         'prerequisite and a task): every pooled task\'s status, flows, submit '
         'number, held / runahead / queued flags, completed outputs and '
         'prerequisite-atom states are symbolic. z3 decides on every path '
         'that after the reload each surviving task keeps status, flows, '
         'submit number, held and runahead flags and completed outputs, that '
         'a task that was queued and ready is queued again by the next '
         'queueing pass, that atoms which still exist keep their state '
         '(natural / forced / unsatisfied), removed atoms disappear, a new atom '
         'is satisfied exactly when the database already records that output '
         'for an overlapping flow, and that a task whose definition was '
         'removed is dropped exactly when it had not started.',
    note='pool a@2, b@2, c@2 of fixture "basic"; the three reload targets '
         'are fixtures basic / reload_ext (adds d => b) / reload_shrunk '
         '(drops a[-P1] from b\'s trigger and drops task c); DB output rows '
         'for the new prerequisite are a dictionary model.',
    functions=['TaskPool.reload', 'TaskPool._reload_taskdefs',
               'TaskProxy.copy_to_reload_successor', 'TaskPool.'
               'check_task_output', 'TaskPool._swap_out',
               'WorkflowConfig.adopt_orphans', 'TaskPool.queue_if_ready'],
    bounds=['3 reload targets; per task: 8 statuses (a: 4), held, runahead, '
            'queued bits, submit number 2, flows {1}/{1,2}; b atoms: 3 '
            'states each; x output bit on a; DB row for d@2: none / '
            'succeeded in flow 1 / succeeded in flow 3; DB rows recording the '
            'outputs behind b\'s existing atoms present or not'],
    stubs=['pri_dao.select_task_outputs (dictionary)', 'data_store_mgr',
           'workflow_db_mgr', 'xtrigger_mgr (real)'],
    assumptions=[],
    outside=['commands.reload_workflow (pausing, config re-parse, broadcast '
             'and DB parameter rewrite - the latter is checked in C06/C43)',
             'job settings of active tasks'],
)

A = fx.cfg('basic')
TARGETS = ['basic', 'reload_ext', 'reload_shrunk']
ST = fx.STATUSES
A_ST = ['waiting', 'preparing', 'running', 'failed']
SAT = [False, 'satisfied naturally', 'force satisfied']
DROWS = [None, ({1}, True), ({3}, True), ({1}, False)]


_TARGET_CACHE = {}


def _target(ti):
    # one config object per reload target and process (distinct from the
    # pool's original config object even for the unchanged definition)
    if ti not in _TARGET_CACHE:
        _TARGET_CACHE[ti] = fx.cfg.__wrapped__(TARGETS[ti])
    return _TARGET_CACHE[ti]


def _run(ti, sa, sb, sc, held_b, rh_b, q_b, held_c, sub_a, fl_b, ax, a1,
         xdone, drow, a1_db=False):
    new_cfg = _target(ti)
    pool = fx.pool(A)
    dao = pool.workflow_db_mgr.pri_dao
    a, b, c = (fx.itask(A, 'a', 2), fx.itask(A, 'b', 2, flows=(
        {1} if fl_b == 0 else {1, 2})), fx.itask(A, 'c', 2))
    for t in (a, b, c):
        pool.add_to_pool(t)
    a.state.status, b.state.status, c.state.status = (
        A_ST[sa], ST[sb], ST[sc])
    a.submit_num = sub_a
    if xdone:
        a.state.outputs.set_message_complete('xx')
    b.state.is_held, b.state.is_runahead = held_b, rh_b
    c.state.is_held = held_c
    c.state.is_runahead = False
    for pre in b.state.prerequisites:
        for k in list(pre._satisfied):
            if k.output == 'xx':
                pre[k] = SAT[ax]
            else:
                pre[k] = SAT[a1]
    if q_b and ST[sb] == 'waiting' and not held_b and not rh_b and (
            ax or a1):
        pool.queue_task(b)
    was_queued = b.state.is_queued
    if DROWS[drow] is not None:
        fl, ok = DROWS[drow]
        dao.task_outputs[('d', '2')] = {json.dumps(
            {'submitted': 'submitted', 'started': 'started',
             **({'succeeded': 'succeeded'} if ok else {})}): set(fl)}
    if a1_db:
        # the DB already records 1/a:succeeded (and 2/a:x) for flow 1 - e.g.
        # the child was removed and respawned by another parent since
        dao.task_outputs[('a', '1')] = {json.dumps(
            {'submitted': 'submitted', 'started': 'started',
             'succeeded': 'succeeded'}): {1}}
        dao.task_outputs[('a', '2')] = {json.dumps(
            {'submitted': 'submitted', 'started': 'started', 'x': 'xx'}): {1}}
    snap = {t.identity: (t.state.status, set(t.flow_nums), t.submit_num,
                         t.state.is_held, t.state.is_runahead,
                         dict(t.state.outputs._completed))
            for t in (a, b, c)}

    pool.reload(new_cfg)

    now = {t.identity: t for t in pool.get_tasks()}
    shrunk = TARGETS[ti] == 'reload_shrunk'
    # orphan c: dropped iff it had not started
    c_started = ST[sc] not in ('waiting',) and not held_c
    if shrunk:
        if ('2/c' in now) != c_started:
            return False
    elif '2/c' not in now:
        return False
    for ident, t in now.items():
        st, fl, sn, held, rh, outs = snap[ident]
        if (t.state.status, t.flow_nums, t.submit_num, t.state.is_held,
                t.state.is_runahead) != (st, fl, sn, held, rh):
            return False
        if dict(t.state.outputs._completed) != outs:
            return False
        if shrunk and ident == '2/c':
            continue                  # kept orphan: old proxy, no children
        if t.tdef is not new_cfg.get_taskdef(t.tdef.name):
            return False              # new definition in use
    nb = now['2/b']
    atoms = {(k.point, k.task, k.output): v
             for pre in nb.state.prerequisites
             for k, v in pre._satisfied.items()}
    want = {('2', 'a', 'xx'): SAT[ax]}
    if not shrunk:
        want[('1', 'a', 'succeeded')] = SAT[a1]
    if TARGETS[ti] == 'reload_ext':
        row = DROWS[drow]
        db_sat = bool(row and row[1] and (row[0] & snap['2/b'][1]))
        got = atoms.get(('2', 'd', 'succeeded'))
        if bool(got) != db_sat:
            return False
        want[('2', 'd', 'succeeded')] = got
    if atoms != want:
        return False
    # a queued, ready task is queued again by the next queueing pass
    for t in pool.get_tasks():
        pool.queue_if_ready(t)
    if was_queued and nb.is_ready_to_run() and not nb.state.is_queued:
        return False
    if nb.state.is_queued and not nb.is_ready_to_run():
        return False
    return True


def reload(ti: int, sa: int, sb: int, sc: int, held_b: bool, rh_b: bool,
           q_b: bool, held_c: bool, sub_a: int, fl_b: int, ax: int, a1: int,
           xdone: bool, drow: int, a1_db: bool) -> bool:
    """
    pre: sl(ti=ti, sb=sb, drow=drow)
    pre: sub_a == 2
    pre: 0 <= ti < 3 and 0 <= sa < 4 and 0 <= sb < 8 and 0 <= sc < 8
    pre: 0 <= sub_a <= 2 and 0 <= fl_b <= 1 and 0 <= ax < 3 and 0 <= a1 < 3
    pre: 0 <= drow < 4
    pre: ti == 1 or drow == 0
    pre: sc in SLICE.get('scs', (0, 5)) and sa in SLICE.get('sas', (0, 2))
    pre: a1 <= SLICE.get('a1max', 1)
    pre: SLICE.get('xd', False) or not xdone
    post: _
    """
    ti, sa, sb, sc = (fork_int(ti, 0, 2), fork_int(sa, 0, 3),
                      fork_int(sb, 0, 7), fork_int(sc, 0, 7))
    sub_a, fl_b, ax, a1, drow = (fork_int(sub_a, 0, 2), fork_int(fl_b, 0, 1),
                                 fork_int(ax, 0, 2), fork_int(a1, 0, 2),
                                 fork_int(drow, 0, 3))
    bits = [fork_bool(x) for x in (held_b, rh_b, q_b, held_c, xdone, a1_db)]
    held_b, rh_b, q_b, held_c, xdone, a1_db = bits
    with concrete():
        return _run(ti, sa, sb, sc, held_b, rh_b, q_b, held_c, sub_a, fl_b,
                    ax, a1, xdone, drow, a1_db)


def OBLIGATIONS(tier):
    big = tier == 'thorough'
    t = 1800 if big else 170
    sas = (0, 1, 2, 3) if big else (0, 2)
    obs = []
    for ti in range(3):
        for sb in range(8):
            for drow in (range(4) if ti == 1 else (0,)):
                obs.append(Ob(
                    f'reload[{TARGETS[ti]},b={ST[sb]},drow={drow}]', 'reload',
                    timeout=t, twin=(sb == 0 and drow == 0),
                    slice={'ti': ti, 'sb': sb, 'sas': sas, 'drow': drow,
                           'scs': (0, 5, 6) if big else (0, 5),
                           'a1max': 2 if big else 1, 'xd': big}))
    return obs


def VALIDATE():
    n = 0
    # tests/integration/test_reload.py style literals
    assert _run(0, 0, 0, 0, False, False, True, False, 0, 0, 1, 0, False, 0)
    assert _run(1, 2, 0, 5, True, False, False, False, 2, 1, 0, 2, True, 1)
    assert _run(1, 2, 0, 5, True, False, False, False, 2, 0, 0, 2, True, 2)
    assert _run(2, 0, 7, 0, False, True, False, True, 1, 0, 2, 1, False, 0)
    assert _run(2, 0, 0, 5, False, False, True, False, 1, 0, 1, 1, False, 0)
    return n + 5

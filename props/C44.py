"""C44 — private workflow files are created owner-only."""
import os
import shutil
import stat
import tempfile

from vf.api import Ob, sl, SLICE, concrete, fork_int, fork_bool

from cylc.flow import pathutil
from cylc.flow.network.authentication import key_housekeeping
from cylc.flow.workflow_db_mgr import WorkflowDatabaseManager
from cylc.flow.workflow_files import (
    KeyInfo, KeyOwner, KeyType, get_workflow_srv_dir)

META = dict(
    level='model_checking',
    technique='bounded symbolic execution (CrossHair + z3) over a symbolic '
              'umask (6 group / other bits), restart bit and the mode of a '
              'pre-existing database file (the solver certifies that every '
              'combination was generated); the real start-up functions run '
              'on a scratch run directory under each and the resulting file '
              'modes are read back with stat',
    text='For every umask that leaves the owner able to work (all 64 '
         'combinations of group / other bits), for a fresh start and for a '
         'restart over an existing database file with looser permissions, '
         'the real WorkflowDatabaseManager.on_workflow_start and the real '
         'key_housekeeping (remove_keys_on_server, create_server_keys -> '
         'zmq.auth.create_certificates, copies into the client key files) '
         'are run in a scratch cylc-run directory; z3 decides on every path '
         'that afterwards the private database, the server private key and '
         'the client private key carry no group or other permission bit, '
         'that the public database and public keys exist, and that the '
         'process umask is restored.',
    note='file modes are produced by the operating system: the umask is '
         'case-split to concrete values and the modes are observed.',
    functions=['WorkflowDatabaseManager.on_workflow_start', 'get_pri_dao',
               'copy_pri_to_pub', 'key_housekeeping',
               'remove_keys_on_server', 'create_server_keys'],
    bounds=['umask: all 64 values of the group / other bits with owner bits '
            'clear; restart bit; pre-existing database mode 0600 / 0644 / '
            '0666'],
    stubs=['cylc-run directory redirected to a scratch directory '
           '(pathutil._CYLC_RUN_DIR)'],
    assumptions=['the umask leaves the owner read / write / search '
                 'permission (otherwise the scheduler cannot start)'],
    outside=['the window between file creation and chmod during start-up',
             'remote (job host) client keys', 'contact file'],
)

PRE = [0o600, 0o644, 0o666]


def _run(um, restart, pi):
    d = tempfile.mkdtemp(prefix='cylc-verif-c44-')
    old_run_dir = pathutil._CYLC_RUN_DIR
    old = os.umask(um)
    try:
        pathutil._CYLC_RUN_DIR = d
        srv = get_workflow_srv_dir('wf')
        log = os.path.join(d, 'wf', 'log')
        os.makedirs(srv)
        os.makedirs(log)
        db = WorkflowDatabaseManager(srv, log)
        if restart:
            with open(db.pri_path, 'wb'):
                pass
            os.chmod(db.pri_path, PRE[pi])
        db.on_workflow_start(restart)
        key_housekeeping('wf')
        db.on_workflow_shutdown()
        private = [
            db.pri_path,
            KeyInfo(KeyType.PRIVATE, KeyOwner.SERVER,
                    workflow_srv_dir=srv).full_key_path,
            KeyInfo(KeyType.PRIVATE, KeyOwner.CLIENT,
                    workflow_srv_dir=srv).full_key_path,
        ]
        for path in private:
            mode = stat.S_IMODE(os.stat(path).st_mode)
            if mode & 0o077:
                return False
            if not mode & 0o600:
                return False
        public = [
            db.pub_path,
            KeyInfo(KeyType.PUBLIC, KeyOwner.SERVER,
                    workflow_srv_dir=srv).full_key_path,
        ]
        if not all(os.path.exists(p) for p in public):
            return False
        now = os.umask(um)
        return now == um              # umask restored by the key code
    finally:
        os.umask(old)
        pathutil._CYLC_RUN_DIR = old_run_dir
        shutil.rmtree(d, ignore_errors=True)


def owner_only(g: int, o: int, restart: bool, pi: int) -> bool:
    """
    pre: 0 <= g <= 7 and 0 <= o <= 7 and 0 <= pi <= 2
    pre: restart or pi == 0
    post: _
    """
    g, o, pi = fork_int(g, 0, 7), fork_int(o, 0, 7), fork_int(pi, 0, 2)
    restart = fork_bool(restart)
    with concrete():
        return _run(g * 8 + o, restart, pi)


def OBLIGATIONS(tier):
    big = tier == 'thorough'
    t = 1200 if big else 170
    return [Ob('owner_only', 'owner_only', timeout=t)]


def VALIDATE():
    n = 0
    assert _run(0o022, False, 0) and _run(0o000, True, 2)
    assert _run(0o077, False, 0)
    return n + 3

"""C06 — held tasks never submit; holds persist and apply to future
instances."""
from vf.api import Ob, sl, SLICE, concrete, fork_int
from vf import fx

from cylc.flow.cycling.integer import IntegerPoint
from cylc.flow.id import TaskTokens

META = dict(
    level='model_checking',
    text='Bounded symbolic execution of the real TaskPool.hold_tasks / '
         'release_held_tasks / set_hold_point / release_hold_point / '
         'hold_active_task / release_held_active_task / spawn_task (hold '
         'block) / queue_if_ready / release_queued_tasks over symbolic command '
         'sequences on a real pool: after every step each pooled task is held '
         'exactly when a reference model says so, a held task is never '
         'queued or released to job preparation, a task spawned later is '
         'held iff it was named in a hold command or lies beyond the hold '
         'point, releasing re-queues a ready task, and the set handed to the '
         'database layer (put_tasks_to_hold / put_workflow_hold_cycle_point) '
         'equals the in-memory set after every command.',
    note='parentless task "a" at points 1..3 (3 is inactive until spawned), '
         'sequences of 3 (thorough 4) commands out of 12; restart '
         'persistence itself (sqlite tables tasks_to_hold / workflow_params) '
         'is outside - the check stops at the rows handed to the DB manager.',
    functions=['TaskPool.hold_tasks', 'TaskPool.release_held_tasks',
               'TaskPool.set_hold_point', 'TaskPool.release_hold_point',
               'TaskPool.hold_active_task', 'TaskPool.release_held_active_task',
               'TaskPool.spawn_task (hold block)', 'TaskPool.queue_if_ready',
               'TaskPool.release_queued_tasks', 'TaskProxy.is_ready_to_run',
               'LimitedTaskQueue.release', 'WorkflowDatabaseManager.'
               'put_workflow_params / put_workflow_hold_cycle_point / '
               'put_workflow_paused'],
    bounds=['commands: hold/release of 1/a, 2/a (active) and 3/a (inactive), '
            'hold point 1, 2 or 3, release hold point, spawn 3/a, queue+release '
            'pass; length 3 quick / 4 thorough'],
    stubs=['workflow_db_mgr (records the rows it is given)',
           'data_store_mgr', 'task_events_mgr'],
    assumptions=['a hold issued after a task was already released to job '
                 'preparation does not recall it (documented behaviour)'],
    outside=['reload of tasks_to_hold / hold point at restart (sqlite)',
             'manual trigger of held tasks'],
)

CFG = fx.cfg('basic')


def tok(p):
    return {TaskTokens(cycle=str(p), task='a')}


def ops(o1: int, o2: int, o3: int, o4: int) -> bool:
    """
    pre: sl(o1=o1)
    pre: 0 <= o1 <= 11 and 0 <= o2 <= 11 and 0 <= o3 <= 11 and 0 <= o4 <= 11
    post: _
    """
    with concrete():
        pool = fx.pool(CFG)
        tasks = {}
        for p in (1, 2):
            t = fx.itask(CFG, 'a', p)
            t.state.is_runahead = False
            pool.add_to_pool(t)
            tasks[p] = t
        db = pool.workflow_db_mgr
        nops = SLICE.get('n', 3)
    held = set()          # points of pooled tasks that must be held
    to_hold = set()       # model of pool.tasks_to_hold (points)
    hold_point = None
    prepped = set()
    for o in (o1, o2, o3, o4)[:nops]:
        o = fork_int(o, 0, 11)
        n_calls = len(db.calls)
        to_hold_before = set(to_hold)
        if o <= 2:
            p = o + 1
            pool.hold_tasks(tok(p))
            to_hold.add(p)
            if p in tasks:
                held.add(p)
        elif o <= 5:
            p = o - 2
            pool.release_held_tasks(tok(p))
            if p in to_hold:
                to_hold.discard(p)
                held.discard(p)
        elif o <= 8:
            hp = o - 5
            pool.set_hold_point(IntegerPoint(str(hp)))
            hold_point = hp
            for p in tasks:
                if p > hp:
                    held.add(p)
                    to_hold.add(p)
        elif o == 9:
            pool.release_hold_point()
            hold_point = None
            held.clear()
            to_hold.clear()
        elif o == 10:
            if 3 in tasks:
                continue
            t3 = pool.spawn_task('a', IntegerPoint('3'), {1})
            if t3 is None:
                return False
            want = 3 in to_hold or (hold_point is not None and 3 > hold_point)
            if t3.state.is_held != want:
                return False
            t3.state.is_runahead = False
            pool.add_to_pool(t3)
            tasks[3] = t3
            if want:
                held.add(3)
                to_hold.add(3)
        else:
            for t in list(tasks.values()):
                pool.queue_if_ready(t)
            released = pool.release_queued_tasks()
            for p, t in tasks.items():
                inrel = any(r is t for r in released)
                if p in held and p not in prepped and (
                        inrel or t.waiting_on_job_prep):
                    return False       # (may stay queued, never released)
                if p not in held and not inrel:
                    return False       # ready, not held: must be released
                if inrel:
                    prepped.add(p)
        # state agrees with the model after every command
        for p, t in tasks.items():
            if t.state.is_held != (p in held):
                return False
            if p in held and p not in prepped and t.waiting_on_job_prep:
                return False
        if {pt for (_n, pt) in pool.tasks_to_hold} != {
                IntegerPoint(str(p)) for p in to_hold}:
            return False
        if (pool.hold_point is None) != (hold_point is None) or (
                hold_point is not None
                and int(pool.hold_point) != hold_point):
            return False
        # what was handed to the DB layer by this command
        new = db.calls[n_calls:]
        if o <= 9:
            puts = [c for c in new if c[0] == 'put_tasks_to_hold']
            if not puts and to_hold != to_hold_before:
                return False           # change not handed to the DB
            if puts and {pt for (_n, pt) in puts[-1][1][0]} != {
                    IntegerPoint(str(p)) for p in to_hold}:
                return False
        if 6 <= o <= 9:
            hp_puts = [c for c in new
                       if c[0] == 'put_workflow_hold_cycle_point']
            if not hp_puts:
                return False
            arg = hp_puts[-1][1][0]
            if (arg is None) != (hold_point is None) or (
                    arg is not None and int(arg) != hold_point):
                return False
    return True


# --- persistence of the hold point in the workflow_params rows -------------
def _apply_params(mgr, table):
    T = mgr.TABLE_WORKFLOW_PARAMS
    for where in mgr.db_deletes_map[T]:
        for key in list(table):
            if all({'key': key, 'value': table[key]}[k] == v
                   for k, v in where.items()):
                del table[key]
    for row in mgr.db_inserts_map[T]:
        if isinstance(row, dict):
            table[row['key']] = row['value']
        else:
            table[row[0]] = row[1]
    for m in (mgr.db_deletes_map, mgr.db_inserts_map, mgr.db_updates_map):
        for lst in m.values():
            del lst[:]


def params_table(o1: int, o2: int, o3: int, o4: int) -> bool:
    """
    pre: 0 <= o1 <= 4 and 0 <= o2 <= 4 and 0 <= o3 <= 4 and 0 <= o4 <= 4
    post: _
    """
    # commands: 0/1 set hold point 1/2, 2 release hold point, 3 reload
    # (commands.reload_workflow re-writes the workflow parameters through
    # put_workflow_params), 4 pause.  After every command the rows handed to
    # the workflow_params table must still record the hold point in force -
    # that row is what a restart restores it from.
    from types import SimpleNamespace as NS
    from cylc.flow.workflow_db_mgr import WorkflowDatabaseManager
    from cylc.flow.run_modes import RunMode
    ops_ = [fork_int(o, 0, 4) for o in (o1, o2, o3, o4)]
    with concrete():
        pool = fx.pool(CFG)
        mgr = WorkflowDatabaseManager()
        mgr.pri_dao = mgr.pub_dao = None
        pool.workflow_db_mgr = mgr
        for p in (1, 2):
            t = fx.itask(CFG, 'a', p)
            pool.add_to_pool(t)
        schd = NS(uuid_str='u', config=CFG, is_paused=False,
                  stop_clock_time=None, stop_task=None, pool=pool,
                  options=NS(fcp=None, startcp=None, stopcp=None,
                             cycle_point_tz=None),
                  get_run_mode=lambda: RunMode.LIVE)
        table = {}
        mgr.put_workflow_params(schd)          # start-up
        _apply_params(mgr, table)
        for o in ops_:
            if o <= 1:
                pool.set_hold_point(IntegerPoint(str(o + 1)))
            elif o == 2:
                pool.release_hold_point()
            elif o == 3:
                mgr.put_workflow_params(schd)
            else:
                schd.is_paused = not schd.is_paused
                mgr.put_workflow_paused(schd.is_paused)
            _apply_params(mgr, table)
            want = None if pool.hold_point is None else str(pool.hold_point)
            if table.get(mgr.KEY_HOLD_CYCLE_POINT) != want:
                return False
            if table.get(mgr.KEY_PAUSED) != int(schd.is_paused):
                return False
    return True


def OBLIGATIONS(tier):
    big = tier == 'thorough'
    t = 1500 if big else 160
    return [Ob(f'ops[o1={o1}]', 'ops', timeout=t, twin=(o1 == 0),
               slice={'o1': o1, 'n': 4 if big else 3}) for o1 in range(12)
            ] + [Ob('params_table', 'params_table', timeout=t)]


def VALIDATE():
    n = 0
    SLICE.update(n=4)
    for seq in ((0, 11, 3, 11), (2, 10, 11, 5), (6, 10, 11, 9), (7, 11, 9, 11),
                (10, 2, 11, 9), (1, 7, 4, 11), (8, 10, 11, 0)):
        SLICE['o1'] = seq[0]
        assert ops(*seq), seq
        n += 1
    SLICE.clear()
    return n

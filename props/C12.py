"""C12 — required/optional output classification matches the expression."""
import itertools
from types import SimpleNamespace as NS

from vf.api import Ob, SLICE

from cylc.flow.config import WorkflowConfig
from cylc.flow.exceptions import WorkflowConfigError
from cylc.flow.run_modes.skip import process_outputs
from cylc.flow.task_outputs import (
    TaskOutputs, get_optional_outputs, get_completion_expression)

META = dict(
    level='translation_validation',
    technique='z3 decides the semantic classification of every output of '
              'every completion expression in a bounded family (unsat = '
              'required) and the answers of the real get_optional_outputs / '
              '_check_completion_expression / skip-mode process_outputs are '
              'compared with the solver\'s verdicts',
    text='For every and/or completion expression up to a size bound and every '
         'output, z3 decides "expression AND NOT output AND NOT expired AND '
         'NOT submit_failed is unsatisfiable" (= required) on the formula '
         'translated from the same AST the real restricted evaluator accepts; '
         'the real get_optional_outputs must return exactly that '
         'classification (required / optional / unreferenced). The real '
         'WorkflowConfig._check_completion_expression may accept an '
         'expression only if it is consistent with every graph optionality '
         'declaration in the bounded family; the real skip-mode '
         'process_outputs must emit every solver-required output plus exactly '
         'one of succeeded/failed.',
    note='expressions: all and/or trees with <= 3 (thorough 4) leaves over '
         '{succeeded, failed, x, y_z, expired, submit_failed}; the enumeration '
         'of expressions is the bound, the solver decides the per-expression '
         'classification over all truth assignments; declarations: every '
         'combination of required/optional/unset for succeeded, failed, x, '
         'y-z and optional/unset for expired, submit-failed.',
    functions=['get_optional_outputs', 'CompletionEvaluator', 'get_variable_'
               'names', 'TaskOutputs.iter_required_messages',
               'WorkflowConfig._check_completion_expression',
               'run_modes.skip.process_outputs', 'get_completion_expression'],
    bounds=['and/or trees, <= 3 leaves quick / <= 4 leaves thorough, 6 '
            'variables', '324 graph declarations x expressions (validation)',
            'skip mode: default expressions of 1350 declarations (C11 '
            'family) + the user-expression family'],
    stubs=['WorkflowConfig stand-in object carrying taskdefs / experimental '
           'for the unbound _check_completion_expression call'],
    assumptions=['expressions are monotone (and/or only) - the only syntax '
                 'the restricted evaluator admits besides parentheses'],
    outside=['graph parsing of ? markers (C14/C15)', 'Cylc 7 compat mode'],
)

VARS = ['succeeded', 'failed', 'x', 'y_z', 'expired', 'submit_failed']
OUTPUTS = {  # trigger: message
    'expired': 'expired', 'submitted': 'submitted',
    'submit-failed': 'submit-failed', 'started': 'started',
    'succeeded': 'succeeded', 'failed': 'failed', 'x': 'xx', 'y-z': 'yz'}
COMPVAR = {t: t.replace('-', '_') for t in OUTPUTS}


def trees(n, top=True):
    """Expression strings with exactly n leaves (leaf = variable)."""
    if n == 1:
        for v in VARS:
            yield v
        return
    for k in range(1, n):
        for op in ('and', 'or'):
            for left in trees(k, False):
                for right in trees(n - k, False):
                    s = f'{left} {op} {right}'
                    yield s if top else f'({s})'


def family(maxleaves):
    seen = set()
    for n in range(1, maxleaves + 1):
        for e in trees(n):
            if e not in seen:
                seen.add(e)
                yield e


def classify_z3(ses, expr):
    """{compvar: True optional / False required / None unreferenced}."""
    import z3
    from vf.smtx import py_bool_to_z3
    env = {COMPVAR[t]: z3.Bool(COMPVAR[t]) for t in OUTPUTS}
    f, env2 = py_bool_to_z3(expr, dict(env))
    assert set(env2) == set(env), expr
    import ast
    used = {n.id for n in ast.walk(ast.parse(expr)) if isinstance(
        n, ast.Name)}
    out = {}
    for t in OUTPUTS:
        cv = COMPVAR[t]
        if cv not in used:
            out[cv] = None
            continue
        r, _ = ses.check(f, z3.Not(env[cv]), z3.Not(env['expired']),
                         z3.Not(env['submit_failed']),
                         label=f'{expr} / {cv}')
        if r not in ('sat', 'unsat'):
            raise RuntimeError(f'solver said {r}')
        out[cv] = (r == 'sat')
    return out


def smt_classify(slc):
    from vf.smtx import Session
    ses = Session()
    n = 0
    for expr in family(slc.get('leaves', 3)):
        want = classify_z3(ses, expr)
        got = get_optional_outputs(expr, list(OUTPUTS))
        n += 1
        if got != want:
            return ses.result(
                'sat', message=f'{expr!r}: real {got} != solver {want}',
                call={'fn': 'replay_classify', 'args': [expr]}, programs=n)
    return ses.result('unsat', programs=n)


def replay_classify(expr) -> bool:
    """Brute-force semantic classification (no solver) vs the real one."""
    got = get_optional_outputs(expr, list(OUTPUTS))
    cvs = [COMPVAR[t] for t in OUTPUTS]
    import ast
    used = {n.id for n in ast.walk(ast.parse(expr)) if isinstance(
        n, ast.Name)}
    for cv in cvs:
        if cv not in used:
            want = None
        else:
            others = [c for c in cvs
                      if c not in (cv, 'expired', 'submit_failed')]
            sat = False
            for vals in itertools.product((False, True), repeat=len(others)):
                env = dict(zip(others, vals))
                env.update({cv: False, 'expired': False,
                            'submit_failed': False})
                if eval(expr, {'__builtins__': {}}, env):
                    sat = True
                    break
            want = sat
        if got.get(cv) != want:
            return False
    return True


# --- validation consistency -------------------------------------------------
def graph_decls():
    tri = (None, True, False)        # is_required
    for suc, fail, x, yz, exp, sf in itertools.product(
            tri, tri, tri, tri, (None, False), (None, False)):
        yield {'succeeded': suc, 'failed': fail, 'x': x, 'y-z': yz,
               'expired': exp, 'submit-failed': sf, 'submitted': None,
               'started': None}


GDECLS = list(graph_decls())


def accepts(decl, expr):
    ns = NS(taskdefs={'t': NS(outputs={
        t: (OUTPUTS[t], decl[t]) for t in OUTPUTS})},
        experimental=NS(expire_triggers=False))
    try:
        WorkflowConfig._check_completion_expression(ns, 't', expr, False)
    except WorkflowConfigError:
        return False
    return True


def consistent(decl, cls):
    """Graph declaration vs expression classification (solver-derived)."""
    for t in OUTPUTS:
        cv = COMPVAR[t]
        g = decl[t]
        if g is True and cls[cv] is not False:
            # required in the graph: must be required by the expression
            # (submit-failed / expired can never be required in the graph)
            return False
        if g is False and cls[cv] is False:
            # optional in the graph but required by the expression
            return False
        if (g is False and cls[cv] is None
                and cv in ('submit_failed', 'expired')):
            # permitted in the graph (the task may end that way) but the
            # expression can never be completed by it (documented table)
            return False
    return True


def smt_validation(slc):
    from vf.smtx import Session
    ses = Session()
    n = 0
    for expr in family(slc.get('leaves', 2)):
        cls = classify_z3(ses, expr)
        for i, decl in enumerate(GDECLS):
            n += 1
            if accepts(decl, expr) and not consistent(decl, cls):
                return ses.result(
                    'sat', message=f'{expr!r} accepted for graph declaration '
                    f'{decl} but classification is {cls}',
                    call={'fn': 'replay_validation', 'args': [expr, i]},
                    programs=n)
    return ses.result('unsat', programs=n)


def replay_validation(expr, i) -> bool:
    decl = GDECLS[i]
    if not accepts(decl, expr):
        return True
    got = get_optional_outputs(expr, list(OUTPUTS))
    if not replay_classify(expr):
        return False
    return consistent(decl, got)


# --- skip mode ---------------------------------------------------------------
def _skip_outputs(tdef):
    to = TaskOutputs(tdef)
    itask = NS(state=NS(outputs=to))
    return to, process_outputs(itask, None)


def smt_skip(slc):
    from vf.smtx import Session
    from props.C11 import DECLS, mk_tdef as mk11, TRIGGERS
    ses = Session()
    n = 0
    cases = []
    for expr in family(slc.get('leaves', 3)):
        cases.append(('user', expr))
    step = slc.get('decl_step', 9)
    for i in range(0, len(DECLS), step):
        cases.append(('decl', i))
    for kind, c in cases:
        if kind == 'user':
            tdef = NS(rtconfig={'completion': c},
                      outputs={t: (OUTPUTS[t], None) for t in OUTPUTS})
            expr = c
            cls = classify_z3(ses, expr)
            msg_of = {COMPVAR[t]: OUTPUTS[t] for t in OUTPUTS}
        else:
            tdef = mk11(DECLS[c])
            expr = get_completion_expression(tdef)
            import z3
            from vf.smtx import py_bool_to_z3
            names = {t.replace('-', '_'): tdef.outputs[t][0]
                     for t in TRIGGERS}
            env = {k: z3.Bool(k) for k in names}
            f, _ = py_bool_to_z3(expr, dict(env))
            cls = {}
            for k in names:
                r, _ = ses.check(f, z3.Not(env[k]), z3.Not(env['expired']),
                                 z3.Not(env['submit_failed']),
                                 label=f'{expr} / {k}')
                cls[k] = (r == 'sat')
            msg_of = names
        n += 1
        to, got = _skip_outputs(tdef)
        required = {msg_of[k] for k, v in cls.items() if v is False}
        # an expression that needs *both* or *neither* branch is not a
        # default-skippable definition; required failed => outputs must be
        # configured explicitly (check_task_skip_config) - see DESIGN
        ok = (('succeeded' in got) != ('failed' in got))
        ok = ok and (required - {'succeeded', 'failed'}) <= got
        ok = ok and {'submitted', 'started'} <= got
        if not {'succeeded', 'failed'} <= required:
            # (an expression requiring both can never complete - the graph
            # parser rejects such declarations - only "exactly one" applies)
            ok = ok and (required & {'succeeded', 'failed'}) <= got
        if not ok:
            return ses.result(
                'sat', message=f'skip-mode outputs {sorted(got)} for '
                f'completion {expr!r}: solver-required {sorted(required)}',
                call={'fn': 'replay_skip', 'args': [kind, c]}, programs=n)
    return ses.result('unsat', programs=n)


def replay_skip(kind, c) -> bool:
    """Truth-table version of smt_skip (no solver, no use of the code's own
    notion of "required")."""
    import itertools
    from props.C11 import DECLS, mk_tdef as mk11, TRIGGERS
    if kind == 'user':
        tdef = NS(rtconfig={'completion': c},
                  outputs={t: (OUTPUTS[t], None) for t in OUTPUTS})
        expr = c
        msg_of = {COMPVAR[t]: OUTPUTS[t] for t in OUTPUTS}
        fixed = {}
    else:
        tdef = mk11(DECLS[c])
        expr = get_completion_expression(tdef)
        msg_of = {t.replace('-', '_'): tdef.outputs[t][0] for t in TRIGGERS}
        fixed = {'expired': False, 'submit_failed': False}
    names = sorted(msg_of)
    code = compile(expr, '<completion>', 'eval')
    free = [k for k in names if k not in fixed]
    sat = []
    for vals in itertools.product((False, True), repeat=len(free)):
        env = dict(zip(free, vals), **fixed)
        if eval(code, {'__builtins__': {}}, dict(env)):
            sat.append(env)
    # required: true in every satisfying assignment
    required = {msg_of[k] for k in names
                if sat and all(env[k] for env in sat)}
    to, got = _skip_outputs(tdef)
    ok = (('succeeded' in got) != ('failed' in got))
    ok = ok and (required - {'succeeded', 'failed'}) <= got
    ok = ok and {'submitted', 'started'} <= got
    if not {'succeeded', 'failed'} <= required:
        ok = ok and (required & {'succeeded', 'failed'}) <= got
    return ok


def OBLIGATIONS(tier):
    big = tier == 'thorough'
    t = 1800 if big else 170
    return [
        Ob('smt_classify', 'smt_classify', kind='smt', timeout=t, twin=False,
           slice={'leaves': 4 if big else 3}),
        Ob('smt_validation', 'smt_validation', kind='smt', timeout=t,
           twin=False, slice={'leaves': 3 if big else 2}),
        Ob('smt_skip', 'smt_skip', kind='smt', timeout=t, twin=False,
           slice={'leaves': 4 if big else 3, 'decl_step': 1 if big else 9}),
    ]


def VALIDATE():
    """The repository's own doctest literals through oracle and real code."""
    n = 0
    lit = [
        ('(succeeded and (x or y_z)) or failed',
         {'expired': None, 'failed': True, 'succeeded': True, 'x': True,
          'y_z': True}),
        ('(succeeded and x and y_z) or expired',
         {'expired': True, 'failed': None, 'succeeded': False, 'x': False,
          'y_z': False}),
    ]
    from vf.smtx import Session
    ses = Session()
    for expr, want in lit:
        got = classify_z3(ses, expr)
        for k, v in want.items():
            assert got[k] == v, (expr, k, got)
        assert replay_classify(expr)
        n += 1
    d = dict(GDECLS[0])
    d['succeeded'] = True
    assert accepts(d, 'succeeded') and not accepts(d, 'failed')
    d['x'] = False
    assert accepts(d, 'succeeded or (failed and x)') is False
    assert accepts(d, 'succeeded and (x or y_z)') is True
    assert accepts(d, 'succeeded and x') is False
    n += 4
    return n

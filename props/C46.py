"""C46 — warm starts run only what follows the start point."""
import json

from vf.api import Ob, sl, SLICE, concrete, fork_int, fork_bool
from vf import fx

from cylc.flow.cycling.integer import IntegerPoint

META = dict(
    level='model_checking',
    text='Bounded symbolic execution of the warm-start rules on a real pool '
         'built from fixture "basic" parsed with start cycle point 3 '
         '(initial 1): TaskPool.spawn_task (first guard), spawn_on_output / '
         'spawn_next_parentless from a pre-start parent, and '
         'Dependency.get_prerequisite (start-point rule): the task, its '
         'point, its flows, whether it was named in a manual trigger, and '
         'whether the database has history for it are symbolic. z3 decides '
         'on every path that an instance before the start point is spawned '
         'iff it has history in the flow, or is manually triggered, or does '
         'not belong to flow 1; that dependencies of at-or-after-start tasks '
         'on pre-start instances are created satisfied while those on '
         'at-or-after-start instances are not; and that nothing before the '
         'start point is ever spawned automatically from a pre-start task.',
    note='fixture "warm" (cold[^] & foo[-P1] => foo; cold2[^+P1] | foo => '
         'bar; foo[-P2] => baz) adds initial-point-relative triggers; '
         'integer cycling; start point 3, points 1..5, tasks a, b, c; '
         'flows {1} / {2} / {1,2}; history = one waiting row in an '
         'overlapping flow; start tasks (--start-task) are outside.',
    functions=['TaskPool.spawn_task', 'TaskPool._get_task_history',
               'TaskPool.spawn_next_parentless', 'TaskPool.spawn_on_output',
               'Dependency.get_prerequisite', 'TaskDef start_point'],
    bounds=['task in {a,b,c}, point 1..5, flows 3 choices, manual bit, '
            'history bit'],
    stubs=['pri_dao (dictionary history)', 'data_store_mgr',
           'workflow_db_mgr'],
    assumptions=[],
    outside=['Scheduler._load_pool_from_tasks (start tasks)',
             'restart from a warm-started run'],
)

CFG = fx.cfg('basic', startcp='3')
START = 3
NAMES = ['a', 'b', 'c']
FLOWS = [{1}, {2}, {1, 2}]


def _spawn(ni, p, fi, manual, hist):
    pool = fx.pool(CFG)
    dao = pool.workflow_db_mgr.pri_dao
    name = NAMES[ni]
    point = IntegerPoint(str(p))
    flows = set(FLOWS[fi])
    if manual:
        pool.pre_start_tasks_to_trigger.add((name, point))
    if hist:
        dao.prev_instances[(name, str(p))] = [
            (1, False, set(flows), 'waiting')]
        dao.task_outputs[(name, str(p))] = {
            json.dumps({'submitted': 'submitted'}): set(flows)}
    got = pool.spawn_task(name, point, flows)
    refused = (not hist) and p < START and 1 in flows and not manual
    if (got is None) != refused:
        return False
    if got is None:
        return True
    # start-point rule for prerequisites
    for pre in got.state.prerequisites:
        for k, v in pre._satisfied.items():
            kp = int(k.point)
            if kp == p:
                if v:
                    return False     # same-cycle dependence: never pre-set
                continue
            want = kp < 1 or (kp < START and p >= START)
            if bool(v) != want:
                return False
    return True


def spawn(ni: int, p: int, fi: int, manual: bool, hist: bool) -> bool:
    """
    pre: 0 <= ni < 3 and 1 <= p <= 5 and 0 <= fi < 3
    post: _
    """
    ni, p, fi = fork_int(ni, 0, 2), fork_int(p, 1, 5), fork_int(fi, 0, 2)
    manual, hist = fork_bool(manual), fork_bool(hist)
    with concrete():
        return _spawn(ni, p, fi, manual, hist)


def _auto(p, fi, out_i):
    """A (manually triggered) pre-start parent finishes: what follows?"""
    pool = fx.pool(CFG)
    flows = set(FLOWS[fi])
    a = fx.itask(CFG, 'a', p, flows=flows)
    pool.add_to_pool(a)
    a.state.status = 'succeeded'
    out = ['succeeded', 'xx'][out_i]
    for m in ('submitted', 'started', out):
        a.state.outputs.set_message_complete(m)
    pool.spawn_on_output(a, out)
    pool.spawn_next_parentless(a)
    for t in pool.get_tasks():
        if t is a:
            continue
        if int(t.point) < START and 1 in t.flow_nums:
            return False          # nothing before the start point in flow 1
        if t.flow_nums != flows:
            return False
    # children at/after the start point do get spawned
    names = {(t.tdef.name, int(t.point)) for t in pool.get_tasks()
             if t is not a}
    want = set()
    if out == 'succeeded':
        want |= {('c', p), ('b', p + 1)}
    else:
        want |= {('b', p)}
    want = {(n, q) for n, q in want if q <= 5 and (
        q >= START or 1 not in flows)}
    nxt = ('a', p + 1)
    if p + 1 <= 5 and p >= START:
        want.add(nxt)
    elif p + 1 <= 5 and nxt in names:
        names.discard(nxt) if 1 not in flows or p + 1 >= START else None
    return want <= names and all(
        q >= START or 1 not in flows for _n, q in names)


def auto(p: int, fi: int, out_i: int) -> bool:
    """
    pre: 1 <= p <= 4 and 0 <= fi < 3 and 0 <= out_i <= 1
    post: _
    """
    p, fi, out_i = fork_int(p, 1, 4), fork_int(fi, 0, 2), fork_int(out_i, 0, 1)
    with concrete():
        return _auto(p, fi, out_i)


CFGW = fx.cfg('warm', startcp='3')
WNAMES = ['foo', 'bar', 'baz']


def _icp(ni, p, fi):
    """Initial-point-relative triggers (cold[^], cold2[^+P1]) and plain
    offsets under a warm start: atoms on instances before the start point are
    created satisfied, all others are not."""
    pool = fx.pool(CFGW)
    got = pool.spawn_task(WNAMES[ni], IntegerPoint(str(p)), set(FLOWS[fi]))
    if got is None:
        return False                 # at or after the start point: spawned
    seen = set()
    for pre in got.state.prerequisites:
        for k, v in pre._satisfied.items():
            kp = int(k.point)
            seen.add((k.task, kp))
            if kp == p:
                if v:
                    return False
                continue
            if bool(v) != (kp < START):
                return False
    want = {'foo': {('cold', 1), ('foo', p - 1)},
            'bar': {('cold2', 2), ('foo', p)},
            'baz': {('foo', p - 2)}}[WNAMES[ni]]
    if seen != want:
        return False
    # a task all of whose dependencies are pre-start can run at once
    ready = all(kp < START for _n, kp in want) or (
        WNAMES[ni] == 'bar')         # (cold2[^+P1] | foo)
    return got.state.prerequisites_all_satisfied() == ready


def icp(ni: int, p: int, fi: int) -> bool:
    """
    pre: 0 <= ni < 3 and 3 <= p <= 6 and 0 <= fi < 3
    post: _
    """
    ni, p, fi = fork_int(ni, 0, 2), fork_int(p, 3, 6), fork_int(fi, 0, 2)
    with concrete():
        return _icp(ni, p, fi)


def OBLIGATIONS(tier):
    big = tier == 'thorough'
    t = 1200 if big else 160
    return [Ob('spawn', 'spawn', timeout=t), Ob('auto', 'auto', timeout=t),
            Ob('icp', 'icp', timeout=t)]


def VALIDATE():
    n = 0
    assert CFG.start_point == IntegerPoint('3')
    assert _spawn(0, 2, 0, False, False) and _spawn(0, 2, 0, True, False)
    assert _spawn(1, 3, 0, False, False) and _spawn(2, 1, 1, False, False)
    assert _auto(2, 0, 0) and _auto(3, 0, 1) and _auto(1, 1, 0)
    assert _icp(0, 3, 0) and _icp(1, 4, 0) and _icp(2, 5, 2)
    return n + 11

"""C41 — literal task environment values reach the job unchanged."""
import io
import os
import subprocess
import tempfile

from vf.api import Ob, sl, SLICE, concrete, fork_int, fork_bool, kf

from cylc.flow.job_file import JobFileWriter

META = dict(
    level='model_checking',
    technique='bounded symbolic execution (CrossHair + z3) over symbolic '
              'indices choosing the values and the order of three '
              'environment variables (the solver certifies that every '
              'combination in the bounded family was generated); the real '
              'job-file writer produces the environment function and bash '
              'evaluates it - bash is the oracle for what the job sees',
    text='Environment sections of three variables are assembled from '
         'symbolic choices out of 24 literal values without shell-expansion '
         'characters (inner / leading / trailing blanks, "#", "=", single '
         'quotes, ";", "&", "|", parentheses, glob characters, braces, '
         'redirection characters, "~" away from the start, unicode, the '
         'empty string, a leading "-") and two values that refer to an '
         'earlier variable ($A, ${A}). The real '
         'JobFileWriter._write_runtime_environment / '
         '_get_variable_value_definition writes the '
         'cylc__job__inst__user_env function; bash (set -eu) sources it, '
         'calls it and prints every variable NUL-separated from a child '
         'process. z3 decides on every path that each literal value arrives '
         'byte for byte, that every variable is exported (visible in the '
         'child), and that a reference to a variable defined earlier in the '
         'section yields that variable\'s value - for each of the orders of '
         'definition. Obligation tilde: ten values that start with "~" '
         '(~, ~/bar baz, path components with quotes, "&", ";", '
         'parentheses, glob characters, "#", unicode) must arrive as $HOME '
         'followed by the rest of the value, byte for byte.',
    note='the values and bash are concrete; values with "$", backquote, '
         'backslash or double quote are shell syntax by '
         'design (the writer wraps values verbatim in double quotes) and '
         'outside the property\'s premise.',
    functions=['JobFileWriter._write_runtime_environment',
               'JobFileWriter._get_variable_value_definition'],
    bounds=['24 literal values x 24 x 2 reference forms x order of the first '
            'two variables (quick: 12 x 12)', '10 tilde forms x 24 (quick 3) '
            'second values'],
    stubs=['the rest of the job script (only the user-environment function '
           'is evaluated)'],
    assumptions=['bash is the job shell'],
    outside=['parameter environment templates', 'the [environment] section '
             'parser (parsec)', 'values containing shell syntax'],
)

VALUES = [
    'plain', 'two words', ' lead', 'trail ', '#hash', 'a#b', 'a # b',
    'k=v', "it's", 'é☃', 'a;b', 'a&b', 'a|b', '(x)', '*', 'a?c', '[a]',
    '{a,b}', '<in >out', 'a~b', '-n', '', 'x  y', "''",
]
REFS = ['$A-x', 'pre ${A} post']
# '~' forms: the writer leaves the leading ~[user]/ outside the quotes so
# that the shell expands it, and quotes the rest
HOME = '/tmp/cylc verif home'
TILDES = ['~', '~/bar', '~/bar baz', "~/a'b'/c", '~/R&D/results', '~/x;y/z',
          '~/a/b c/d', '~/(x)/*', '~/a#b/c d', '~/é/☃']


def _run(i, j, r, swap):
    va, vb = VALUES[i], VALUES[j]
    env = [('A', va), ('B', vb)]
    if swap:
        env.reverse()
    # C refers to A: A must be defined before C whatever the order of A, B
    env.append(('C', REFS[r]))
    job_conf = {'environment': dict(env), 'param_var': {}}
    buf = io.StringIO()
    JobFileWriter._write_runtime_environment(buf, job_conf)
    script = (
        'set -eu\n' + buf.getvalue() + '\ncylc__job__inst__user_env\n'
        # a child process sees exported variables only
        'exec env -0\n')
    with tempfile.NamedTemporaryFile('w', suffix='.sh', delete=False) as f:
        f.write(script)
        path = f.name
    try:
        out = subprocess.run(
            ['bash', '--noprofile', '--norc', path], capture_output=True,
            env={'PATH': os.environ.get('PATH', '/usr/bin:/bin'),
                 'HOME': '/nonexistent'}, timeout=30)
    finally:
        os.unlink(path)
    if out.returncode != 0:
        return False
    got = {}
    for item in out.stdout.split(b'\0'):
        if b'=' in item:
            k, v = item.split(b'=', 1)
            got[k.decode()] = v.decode('utf-8', 'replace')
    if got.get('A') != va or got.get('B') != vb:
        return False
    want_c = (va + '-x') if r == 0 else f'pre {va} post'
    return got.get('C') == want_c


def _tilde(ti, j):
    value = TILDES[ti]
    job_conf = {'environment': {'T': value, 'B': VALUES[j]}, 'param_var': {}}
    buf = io.StringIO()
    JobFileWriter._write_runtime_environment(buf, job_conf)
    script = ('set -eu\n' + buf.getvalue()
              + '\ncylc__job__inst__user_env\nexec env -0\n')
    with tempfile.NamedTemporaryFile('w', suffix='.sh', delete=False) as f:
        f.write(script)
        path = f.name
    try:
        out = subprocess.run(
            ['bash', '--noprofile', '--norc', path], capture_output=True,
            env={'PATH': os.environ.get('PATH', '/usr/bin:/bin'),
                 'HOME': HOME}, timeout=30)
    finally:
        os.unlink(path)
    if out.returncode != 0:
        return False
    got = {}
    for item in out.stdout.split(b'\0'):
        if b'=' in item:
            k, v = item.split(b'=', 1)
            got[k.decode()] = v.decode('utf-8', 'replace')
    return got.get('T') == HOME + value[1:] and got.get('B') == VALUES[j]


def tilde(ti: int, j: int) -> bool:
    """
    pre: 0 <= ti < len(TILDES) and 0 <= j < len(VALUES)
    pre: SLICE.get('full', True) or j in (0, 1, 8)
    post: _
    """
    ti, j = fork_int(ti, 0, len(TILDES) - 1), fork_int(j, 0, len(VALUES) - 1)
    with concrete():
        return _tilde(ti, j)


def exported(i: int, j: int, r: int, swap: bool) -> bool:
    """
    pre: sl(r=r, swap=swap)
    pre: 0 <= i < len(VALUES) and 0 <= j < len(VALUES) and 0 <= r <= 1
    pre: SLICE.get('full', True) or (i % 2 == 0 and j % 2 == 1)
    post: _
    """
    i, j = fork_int(i, 0, len(VALUES) - 1), fork_int(j, 0, len(VALUES) - 1)
    r, swap = fork_int(r, 0, 1), fork_bool(swap)
    with concrete():
        return _run(i, j, r, swap)


def OBLIGATIONS(tier):
    big = tier == 'thorough'
    t = 1200 if big else 170
    return [Ob(f'exported[ref={REFS[r]},swap={int(s)}]', 'exported',
               timeout=t, twin=(r == 0 and not s),
               slice={'r': r, 'swap': s, 'full': big})
            for r in range(2) for s in (False, True)] + [
        Ob('tilde', 'tilde', timeout=t, slice={'full': big})]


def VALIDATE():
    n = 0
    # doc-comment cases of _get_variable_value_definition
    f = JobFileWriter._get_variable_value_definition
    assert f('foo bar', {}) == '"foo bar"'
    assert f('~foo/bar baz', {}) == '~foo/"bar baz"'
    assert _run(0, 1, 0, False) and _run(8, 4, 1, True)
    assert _tilde(0, 0) and _tilde(2, 1)
    return n + 6

"""C18 — cycle point and interval algebra is a consistent total order."""
from vf.api import Ob, sl, slices, concrete, fork_int
from props import _dt
from cylc.flow.cycling.integer import IntegerPoint, IntegerInterval

META = dict(
    level='model_checking',
    text='Bounded symbolic execution of the real IntegerPoint / '
         'IntegerInterval comparison, hashing, standardise and arithmetic '
         'code: z3 decides every path for all integer values in the box, so '
         'order-consistency, eq=>hash-eq, standardise idempotence and '
         '(p+i)-i==p hold for every value in the box, not for sampled ones. '
         'Datetime points (obligations datetime_points[*]): the string-based '
         'metomi.isodatetime arithmetic cannot be kept symbolic, so point '
         'strings are assembled from symbolic component indices (year, '
         'month, day incl. month ends, hour, time zone) and the real '
         'ISO8601Point / ISO8601Interval code runs on each under one '
         'calendar and then under each of the others in the same process: '
         'order, equality and hash (after standardise) must agree with an '
         'instant computed from the components and the calendar rules '
         'without parsing, standardise must be idempotent and value '
         'preserving, (p+i)-i and (p-i)+i must return p for seven '
         'fixed-length intervals, and q+(p-q) must return p.',
    note='integer cycling: all values in the stated boxes (symbolic); '
         'datetime cycling: 4 calendars x 4 years x 4 months x 5 days x 2 '
         'hours x 3 time zones, 15 partner points each (other zones, same '
         'wall clock, neighbours across month and year ends), every ordered '
         'pair of calendars; CrossHair int()/format() environment patches '
         '(self-tested each run).',
    functions=[
        'cylc.flow.cycling.PointBase.__cmp__/__eq__/__lt__/__le__/__gt__/'
        '__ge__/__hash__/__add__/__sub__',
        'cylc.flow.cycling.integer.IntegerPoint.add/sub/_cmp/standardise/'
        '__int__',
        'cylc.flow.cycling.integer.IntegerInterval.from_integer/add/sub/'
        '_cmp/__abs__/__mul__/__bool__/__int__',
        'cylc.flow.cycling.IntervalBase comparison operators',
        'cylc.flow.cycling.iso8601.ISO8601Point._cmp/add/sub/standardise, '
        'ISO8601Interval, point_parse / _point_parse / interval_parse caches',
    ],
    bounds=['quick: points/intervals in [-99,99]; thorough: order [-999,999], '
            'add / roundtrip [-300,300] (999 did not finish within the budget)',
            'standardise: |value| <= 99, up to 2 leading zeros, optional sign',
            'multiplication factor: each concrete value in [-2,5] (quick) / [-9,9] (thorough), one obligation per factor (symbolic x symbolic product is non-linear)'],
    stubs=[],
    assumptions=['integer points are built from decimal integer strings'],
    outside=['expanded-year datetime points, week-date and ordinal-date '
             'forms, truncated points', 'nominal (month / year) intervals'],
)


BOX = "(-999 <= a <= 999 and -999 <= b <= 999) if big else (-99 <= a <= 99 and -99 <= b <= 99)"


def order(a: int, b: int, big: bool) -> bool:
    """
    pre: sl(big=big)
    pre: (-999 <= a <= 999 and -999 <= b <= 999) if big else (-99 <= a <= 99 and -99 <= b <= 99)
    post: _
    """
    p, q = IntegerPoint(str(a)), IntegerPoint(str(b))
    lt, eq, gt = p < q, p == q, p > q
    if (lt, eq, gt) != (a < b, a == b, a > b):
        return False
    if (p <= q) != (a <= b) or (p >= q) != (a >= b) or (p != q) != (a != b):
        return False
    return True


def hash_eq(a: int, b: int) -> bool:
    """
    pre: -20 <= a <= 20 and -20 <= b <= 20
    post: _
    """
    p, q = IntegerPoint(str(a)), IntegerPoint(str(b))
    if p == q:
        return hash(p) == hash(q) and len({p, q}) == 1
    return len({p, q}) == 2


def interval_lt(a: int, b: int) -> bool:
    """
    pre: -99 <= a <= 99 and -99 <= b <= 99
    post: _
    """
    i, j = IntegerInterval.from_integer(a), IntegerInterval.from_integer(b)
    return (i < j) == (a < b) and (i > j) == (a > b)


def interval_eq(a: int, b: int) -> bool:
    """
    pre: -99 <= a <= 99 and -99 <= b <= 99
    post: _
    """
    i, j = IntegerInterval.from_integer(a), IntegerInterval.from_integer(b)
    return (i == j) == (a == b) and (i <= j) == (a <= b)


def interval_ge(a: int, b: int) -> bool:
    """
    pre: -99 <= a <= 99 and -99 <= b <= 99
    post: _
    """
    i, j = IntegerInterval.from_integer(a), IntegerInterval.from_integer(b)
    return (i >= j) == (a >= b) and (i != j) == (a != b)


def interval_unary(a: int) -> bool:
    """
    pre: -999 <= a <= 999
    post: _
    """
    i = IntegerInterval.from_integer(a)
    return (bool(i) == (a != 0) and int(abs(i)) == abs(a)
            and int(-i) == -a and int(i) == a)


def add(a: int, b: int, big: bool) -> bool:
    """
    pre: sl(big=big)
    pre: (-300 <= a <= 300 and -300 <= b <= 300) if big else (-99 <= a <= 99 and -99 <= b <= 99)
    post: _
    """
    p = IntegerPoint(str(a))
    i = IntegerInterval.from_integer(b)
    return int(p + i) == a + b and int(i + p) == a + b


def roundtrip(a: int, b: int, big: bool) -> bool:
    """
    pre: sl(big=big)
    pre: (-300 <= a <= 300 and -300 <= b <= 300) if big else (-99 <= a <= 99 and -99 <= b <= 99)
    post: _
    """
    p = IntegerPoint(str(a))
    i = IntegerInterval.from_integer(b)
    back = (p + i) - i
    return back == p and back.value == p.value


def point_diff(a: int, b: int) -> bool:
    """
    pre: -99 <= a <= 99 and -99 <= b <= 99
    post: _
    """
    p, q = IntegerPoint(str(a)), IntegerPoint(str(b))
    d = p - q
    return isinstance(d, IntegerInterval) and int(d) == a - b


def point_minus_interval(a: int, b: int) -> bool:
    """
    pre: -99 <= a <= 99 and -99 <= b <= 99
    post: _
    """
    p = IntegerPoint(str(a))
    i = IntegerInterval.from_integer(b)
    r = p - i
    return isinstance(r, IntegerPoint) and int(r) == a - b


def interval_addsub(a: int, b: int) -> bool:
    """
    pre: -99 <= a <= 99 and -99 <= b <= 99
    post: _
    """
    i, j = IntegerInterval.from_integer(a), IntegerInterval.from_integer(b)
    return int(i + j) == a + b and int(i - j) == a - b


def mul(b: int, f: int) -> bool:
    """
    pre: sl(f=f)
    pre: -99 <= b <= 99 and -9 <= f <= 9
    post: _
    """
    i = IntegerInterval.from_integer(b)
    return int(i * f) == b * f


def standardise(a: int, zeros: int, sign: int) -> bool:
    """
    pre: 0 <= a <= 99 and 0 <= zeros <= 2 and 0 <= sign <= 2
    post: _
    """
    s = ['', '+', '-'][sign] + '0' * zeros + str(a)
    val = -a if sign == 2 else a
    p = IntegerPoint(s)
    before = int(p)
    p.standardise()
    if p.value != str(val) or int(p) != before or before != val:
        return False
    q = IntegerPoint(p.value).standardise()
    return q.value == p.value and p == IntegerPoint(str(val))


def _datetime(c1, yi, mi, di, hi, tzi):
    c = _dt.comp(yi, mi, di, hi, tzi)
    for c2 in range(len(_dt.CALS)):
        # the same strings under one calendar, then under another, in one
        # process: caches must not carry answers across calendars
        for cal in (_dt.CALS[c1], _dt.CALS[c2]):
            _dt.set_calendar(cal)
            if not _dt.check_point(cal, c):
                return False
            for q in _dt.partners(c):
                if not _dt.check_pair(cal, c, q):
                    return False
    return True


def datetime_points(c1: int, yi: int, mi: int, di: int, hi: int,
                    tzi: int) -> bool:
    """
    pre: sl(c1=c1, yi=yi)
    pre: 0 <= c1 < 4 and 0 <= yi < 4 and 0 <= mi < 4 and 0 <= di < 5
    pre: 0 <= hi < 2 and 0 <= tzi < 3
    post: _
    """
    c1, yi, mi = fork_int(c1, 0, 3), fork_int(yi, 0, 3), fork_int(mi, 0, 3)
    di, hi, tzi = fork_int(di, 0, 4), fork_int(hi, 0, 1), fork_int(tzi, 0, 2)
    with concrete():
        return _datetime(c1, yi, mi, di, hi, tzi)


def OBLIGATIONS(tier):
    big = tier == 'thorough'
    t = 1200 if big else 150
    two = ['order', 'add', 'roundtrip']
    obs = [Ob(n, n, slice={'big': big}, timeout=t) for n in two]
    obs += [Ob(n, n, timeout=t) for n in (
        'hash_eq', 'interval_lt', 'interval_eq', 'interval_ge',
        'interval_unary', 'point_diff', 'point_minus_interval',
        'interval_addsub', 'standardise')]
    obs += slices('mul', 'mul', 'f', range(-9, 10) if big else range(-2, 6),
                  timeout=t)
    obs += [Ob(f'datetime_points[{_dt.CALS[c]},{_dt.YEARS[y]}]',
               'datetime_points', timeout=t, twin=(c == 0 and y == 0),
               slice={'c1': c, 'yi': y})
            for c in range(4) for y in range(4)]
    return obs


def VALIDATE():
    """Harness oracles on literal values (incl. those of the repo's tests)."""
    n = 0
    for a, b in [(1, 2), (5, 5), (-3, 3), (10, 9), (0, -1), (99, -99)]:
        for big in (False, True):
            assert order(a, b, big) and add(a, b, big) and roundtrip(a, b, big)
            n += 3
        assert interval_lt(a, b) and interval_eq(a, b) and interval_ge(a, b)
        assert point_diff(a, b) and point_minus_interval(a, b)
        assert interval_addsub(a, b) and mul(a, b % 9) and interval_unary(a)
        assert hash_eq(a % 20, b % 20)
        n += 9
    for a in (0, 5, 42):
        for z in (0, 1, 2):
            for s in (0, 1, 2):
                assert standardise(a, z, s)
                n += 1
    return n

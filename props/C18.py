"""C18 — cycle point and interval algebra (integer cycling)."""
from vf.api import Ob, sl
from cylc.flow.cycling.integer import IntegerPoint, IntegerInterval


def order(a: int, b: int) -> bool:
    """
    pre: -99 <= a <= 99 and -99 <= b <= 99
    post: _
    """
    p, q = IntegerPoint(str(a)), IntegerPoint(str(b))
    lt, eq, gt = p < q, p == q, p > q
    if (lt, eq, gt) != (a < b, a == b, a > b):
        return False
    if (p <= q) != (a <= b) or (p >= q) != (a >= b) or (p != q) != (a != b):
        return False
    if eq and hash(p) != hash(q):
        return False
    return True


def OBLIGATIONS(tier):
    return [Ob('order', 'order', timeout=60)]
META = dict(
    level='model_checking',
    text='Bounded symbolic execution of the real IntegerPoint/IntegerInterval '
         'comparison, hashing and arithmetic code: z3 decides every path for '
         'all integer values in the box.',
    note='Integer cycling only (ISO8601 points are outside: see C17); values '
         'in the stated box; CrossHair int()/format() environment patches.',
    functions=['cylc.flow.cycling.PointBase.__lt__'],
    bounds=['a,b in [-99,99]'],
)

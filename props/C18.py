"""C18 — cycle point and interval algebra is a consistent total order
(integer cycling)."""
from vf.api import Ob, sl, slices
from cylc.flow.cycling.integer import IntegerPoint, IntegerInterval

META = dict(
    level='model_checking',
    text='Bounded symbolic execution of the real IntegerPoint / '
         'IntegerInterval comparison, hashing, standardise and arithmetic '
         'code: z3 decides every path for all integer values in the box, so '
         'order-consistency, eq=>hash-eq, standardise idempotence and '
         '(p+i)-i==p hold for every value in the box, not for sampled ones.',
    note='Integer cycling only (ISO8601 points/intervals are outside: their '
         'arithmetic lives in metomi.isodatetime, see C17 not-applicable); '
         'values in the stated boxes; CrossHair int()/format() environment '
         'patches (self-tested each run).',
    functions=[
        'cylc.flow.cycling.PointBase.__cmp__/__eq__/__lt__/__le__/__gt__/'
        '__ge__/__hash__/__add__/__sub__',
        'cylc.flow.cycling.integer.IntegerPoint.add/sub/_cmp/standardise/'
        '__int__',
        'cylc.flow.cycling.integer.IntegerInterval.from_integer/add/sub/'
        '_cmp/__abs__/__mul__/__bool__/__int__',
        'cylc.flow.cycling.IntervalBase comparison operators',
    ],
    bounds=['quick: points/intervals in [-99,99]; thorough: [-999,999]',
            'standardise: |value| <= 99, up to 2 leading zeros, optional sign',
            'multiplication factor: each concrete value in [-2,5] (quick) / [-9,9] (thorough), one obligation per factor (symbolic x symbolic product is non-linear)'],
    stubs=[],
    assumptions=['points are built from decimal integer strings'],
    outside=['ISO8601 points and intervals', 'calendars/time zones'],
)


BOX = "(-999 <= a <= 999 and -999 <= b <= 999) if big else (-99 <= a <= 99 and -99 <= b <= 99)"


def order(a: int, b: int, big: bool) -> bool:
    """
    pre: sl(big=big)
    pre: (-999 <= a <= 999 and -999 <= b <= 999) if big else (-99 <= a <= 99 and -99 <= b <= 99)
    post: _
    """
    p, q = IntegerPoint(str(a)), IntegerPoint(str(b))
    lt, eq, gt = p < q, p == q, p > q
    if (lt, eq, gt) != (a < b, a == b, a > b):
        return False
    if (p <= q) != (a <= b) or (p >= q) != (a >= b) or (p != q) != (a != b):
        return False
    return True


def hash_eq(a: int, b: int) -> bool:
    """
    pre: -20 <= a <= 20 and -20 <= b <= 20
    post: _
    """
    p, q = IntegerPoint(str(a)), IntegerPoint(str(b))
    if p == q:
        return hash(p) == hash(q) and len({p, q}) == 1
    return len({p, q}) == 2


def interval_lt(a: int, b: int) -> bool:
    """
    pre: -99 <= a <= 99 and -99 <= b <= 99
    post: _
    """
    i, j = IntegerInterval.from_integer(a), IntegerInterval.from_integer(b)
    return (i < j) == (a < b) and (i > j) == (a > b)


def interval_eq(a: int, b: int) -> bool:
    """
    pre: -99 <= a <= 99 and -99 <= b <= 99
    post: _
    """
    i, j = IntegerInterval.from_integer(a), IntegerInterval.from_integer(b)
    return (i == j) == (a == b) and (i <= j) == (a <= b)


def interval_ge(a: int, b: int) -> bool:
    """
    pre: -99 <= a <= 99 and -99 <= b <= 99
    post: _
    """
    i, j = IntegerInterval.from_integer(a), IntegerInterval.from_integer(b)
    return (i >= j) == (a >= b) and (i != j) == (a != b)


def interval_unary(a: int) -> bool:
    """
    pre: -999 <= a <= 999
    post: _
    """
    i = IntegerInterval.from_integer(a)
    return (bool(i) == (a != 0) and int(abs(i)) == abs(a)
            and int(-i) == -a and int(i) == a)


def add(a: int, b: int, big: bool) -> bool:
    """
    pre: sl(big=big)
    pre: (-999 <= a <= 999 and -999 <= b <= 999) if big else (-99 <= a <= 99 and -99 <= b <= 99)
    post: _
    """
    p = IntegerPoint(str(a))
    i = IntegerInterval.from_integer(b)
    return int(p + i) == a + b and int(i + p) == a + b


def roundtrip(a: int, b: int, big: bool) -> bool:
    """
    pre: sl(big=big)
    pre: (-999 <= a <= 999 and -999 <= b <= 999) if big else (-99 <= a <= 99 and -99 <= b <= 99)
    post: _
    """
    p = IntegerPoint(str(a))
    i = IntegerInterval.from_integer(b)
    back = (p + i) - i
    return back == p and back.value == p.value


def point_diff(a: int, b: int) -> bool:
    """
    pre: -99 <= a <= 99 and -99 <= b <= 99
    post: _
    """
    p, q = IntegerPoint(str(a)), IntegerPoint(str(b))
    d = p - q
    return isinstance(d, IntegerInterval) and int(d) == a - b


def point_minus_interval(a: int, b: int) -> bool:
    """
    pre: -99 <= a <= 99 and -99 <= b <= 99
    post: _
    """
    p = IntegerPoint(str(a))
    i = IntegerInterval.from_integer(b)
    r = p - i
    return isinstance(r, IntegerPoint) and int(r) == a - b


def interval_addsub(a: int, b: int) -> bool:
    """
    pre: -99 <= a <= 99 and -99 <= b <= 99
    post: _
    """
    i, j = IntegerInterval.from_integer(a), IntegerInterval.from_integer(b)
    return int(i + j) == a + b and int(i - j) == a - b


def mul(b: int, f: int) -> bool:
    """
    pre: sl(f=f)
    pre: -99 <= b <= 99 and -9 <= f <= 9
    post: _
    """
    i = IntegerInterval.from_integer(b)
    return int(i * f) == b * f


def standardise(a: int, zeros: int, sign: int) -> bool:
    """
    pre: 0 <= a <= 99 and 0 <= zeros <= 2 and 0 <= sign <= 2
    post: _
    """
    s = ['', '+', '-'][sign] + '0' * zeros + str(a)
    val = -a if sign == 2 else a
    p = IntegerPoint(s)
    before = int(p)
    p.standardise()
    if p.value != str(val) or int(p) != before or before != val:
        return False
    q = IntegerPoint(p.value).standardise()
    return q.value == p.value and p == IntegerPoint(str(val))


def OBLIGATIONS(tier):
    big = tier == 'thorough'
    t = 1200 if big else 150
    two = ['order', 'add', 'roundtrip']
    obs = [Ob(n, n, slice={'big': big}, timeout=t) for n in two]
    obs += [Ob(n, n, timeout=t) for n in (
        'hash_eq', 'interval_lt', 'interval_eq', 'interval_ge',
        'interval_unary', 'point_diff', 'point_minus_interval',
        'interval_addsub', 'standardise')]
    obs += slices('mul', 'mul', 'f', range(-9, 10) if big else range(-2, 6),
                  timeout=t)
    return obs


def VALIDATE():
    """Harness oracles on literal values (incl. those of the repo's tests)."""
    n = 0
    for a, b in [(1, 2), (5, 5), (-3, 3), (10, 9), (0, -1), (99, -99)]:
        for big in (False, True):
            assert order(a, b, big) and add(a, b, big) and roundtrip(a, b, big)
            n += 3
        assert interval_lt(a, b) and interval_eq(a, b) and interval_ge(a, b)
        assert point_diff(a, b) and point_minus_interval(a, b)
        assert interval_addsub(a, b) and mul(a, b % 9) and interval_unary(a)
        assert hash_eq(a % 20, b % 20)
        n += 9
    for a in (0, 5, 42):
        for z in (0, 1, 2):
            for s in (0, 1, 2):
                assert standardise(a, z, s)
                n += 1
    return n

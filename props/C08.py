"""C08 — flow numbers propagate, merge and are never reused."""
import json

from vf.api import Ob, sl, SLICE, concrete, fork_int, fork_bool, Stub
from vf import fx

from cylc.flow.cycling.integer import IntegerPoint
from cylc.flow.flow_mgr import FlowMgr
import cylc.flow.flow_mgr as _fm


class _FakeDT:
    """datetime stand-in: constant clock (start_time metadata only)."""
    class timezone:
        utc = None

    class datetime:
        @staticmethod
        def now(tz=None):
            class T:
                def isoformat(self, timespec='seconds'):
                    return '2000-01-01T00:00:00+00:00'
            return T()


_fm.datetime = _FakeDT

META = dict(
    level='model_checking',
    text='Bounded symbolic execution of (a) the real FlowMgr.get_flow / '
         'cli_to_flow_nums / load_from_db over symbolic command sequences '
         '(--flow=new, --flow=N with symbolic N, restarts that reload only '
         'the flows present in the pool) against a model of the flow table: '
         'a new flow number was never recorded before, before or across a '
         'restart; (b) the real TaskPool.spawn_on_output / merge_flows with '
         'symbolic parent and existing-child flow sets: every child carries '
         'the parent\'s flows, an existing instance ends with the union, a '
         'no-flow parent spawns nothing; (c) the real TaskPool.spawn_task / '
         '_get_task_history / _load_historical_outputs with symbolic history '
         'rows (submit number, flow set, status, flow-wait, recorded '
         'outputs): an instance finished and complete in an overlapping flow '
         'is not spawned again, a finished-incomplete one is not reset to '
         'waiting, and otherwise the new proxy carries the right submit '
         'number and flows.',
    note='flow numbers 1..5 / subsets of {1,2,3}; <= 3 '
         'commands; <= 2 history rows; the SQL behind the DAO queries is '
         'trusted (modelled by dictionaries); fixture graph "basic".',
    functions=['FlowMgr.get_flow', 'FlowMgr.cli_to_flow_nums',
               'FlowMgr.load_from_db', 'TaskPool.spawn_on_output',
               'TaskPool.merge_flows', 'TaskProxy.merge_flows',
               'TaskPool.spawn_task', 'TaskPool._get_task_history',
               'TaskPool._load_db_task_proxy/_load_historical_outputs'],
    bounds=['commands: new | N (1..5) | restart(pool subset); 3 per '
            'history', 'parent flows subset of {1,2}, existing child flows '
            'subset of {1,2,3}, child present or not, parent flow-wait bit',
            'history: 0..2 rows x (submit 1..2, flows subset {1,2,3}, 8 '
            'statuses, flow-wait), outputs row none/incomplete/complete'],
    stubs=['pri_dao (dictionary model of workflow_flows / task_states / '
           'task_outputs queries)', 'data_store_mgr', 'workflow_db_mgr', 'flow_mgr.datetime -> constant clock (flow '
           'start-time metadata only)'],
    assumptions=['the workflow_flows table holds every flow number ever '
                 'recorded (rows are never deleted)'],
    outside=['SQL statements themselves', 'whole command sequences through '
             'the scheduler (commands.py)'],
)

CFG = fx.cfg('basic')


class FlowDb(Stub):
    """Model of the workflow_flows table."""

    def __init__(self):
        super().__init__('db')
        self.__dict__['recorded'] = {}
        outer = self

        class Dao:
            def select_workflow_flows_max_flow_num(self):
                return max(outer.recorded) if outer.recorded else None

            def select_workflow_flows(self, flow_nums):
                return {n: dict(m) for n, m in outer.recorded.items()
                        if n in flow_nums}
        self.__dict__['pri_dao'] = Dao()

    def put_insert_workflow_flows(self, flow_num, meta):
        self.recorded[flow_num] = dict(meta)


def counter(o1: int, o2: int, o3: int, o4: int, o5: int) -> bool:
    """
    pre: sl(o1=o1)
    pre: 0 <= o1 <= 9 and 0 <= o2 <= 9 and 0 <= o3 <= 9 and 0 <= o4 <= 9
    pre: 0 <= o5 <= 9
    post: _
    """
    # op 0: --flow=new; 1..5: --flow=N; 6..9: restart keeping pool flows
    # {1} / {} / all recorded / the highest recorded only
    db = FlowDb()
    mgr = FlowMgr(db)
    first = mgr.get_flow()          # the scheduler's original flow
    if first != 1:
        return False
    n = SLICE.get('n', 4)
    for o in (o1, o2, o3, o4, o5)[:n]:
        before = set(db.recorded)
        if o == 0:
            got = mgr.cli_to_flow_nums(['new'])
            if len(got) != 1:
                return False
            (num,) = got
            if num in before or num < 1 or num not in db.recorded:
                return False
        elif o <= 5:
            got = mgr.cli_to_flow_nums([str(o)])
            if got != {o} or o not in db.recorded:
                return False
        else:
            o = fork_int(o, 6, 9)
            rec = sorted(db.recorded)
            keep = {6: {1}, 7: set(), 8: set(rec), 9: {rec[-1]}}[o]
            mgr = FlowMgr(db)
            mgr.load_from_db(keep)
        if not before <= set(db.recorded):
            return False
    return True


def _bits(b1, b2, b3=False):
    # real (untraced) set objects: the code under test calls the unbound
    # set.intersection on them
    b1, b2, b3 = fork_bool(b1), fork_bool(b2), fork_bool(b3)
    with concrete():
        return {n for n, b in zip((1, 2, 3), (b1, b2, b3)) if b}


def spawn_union(p1: bool, p2: bool, have_c: bool, c1: bool, c2: bool,
                c3: bool, wait: bool, c_status: int) -> bool:
    """
    pre: 0 <= c_status <= 1
    post: _
    """
    with concrete():
        pool = fx.pool(CFG)
        parent = fx.itask(CFG, 'a', 2)
        parent.state.is_runahead = False
        pool.add_to_pool(parent)
        child = fx.itask(CFG, 'c', 2)
    p1, p2, have_c = fork_bool(p1), fork_bool(p2), fork_bool(have_c)
    c1, c2, c3, wait = (fork_bool(c1), fork_bool(c2), fork_bool(c3),
                        fork_bool(wait))
    pf, cf = _bits(p1, p2), _bits(c1, c2, c3)
    with concrete():
        parent.flow_nums = set(pf)
    parent.flow_wait = wait
    parent.state.status = 'succeeded'
    for m in ('submitted', 'started', 'succeeded'):
        parent.state.outputs.set_message_complete(m)
    if have_c:
        with concrete():
            child.flow_nums = set(cf)
        child.state.status = ['waiting', 'running'][fork_int(c_status, 0, 1)]
        pool.add_to_pool(child)
    pool.spawn_on_output(parent, 'succeeded')
    got = pool._get_task_by_id('2/c')
    if not pf or wait:
        # no-flow / flow-wait parents do not spawn or merge
        if have_c:
            return got is child and child.flow_nums == cf
        return got is None
    if have_c:
        if got is not child:
            return False
        return child.flow_nums == (cf | pf)
    if got is None:
        return False
    sat = got.state.prerequisites_all_satisfied()
    other = pool._get_task_by_id('3/b')       # a[-P1] | a:x => b
    return (got.flow_nums == pf and sat and other is not None
            and other.flow_nums == pf)


OUT_ROWS = [None,
            json.dumps({'submitted': 'submitted', 'started': 'started'}),
            json.dumps({'submitted': 'submitted', 'started': 'started',
                        'succeeded': 'succeeded'})]
FINAL = ('succeeded', 'failed', 'submit-failed', 'expired')


def no_rerun(nrows: int, s1: int, s2: int, f11: bool, f12: bool, f13: bool,
             f21: bool, f22: bool, f23: bool, w1: bool, q1: bool, q2: bool,
             orow: int, o1: bool, o2: bool, o3: bool) -> bool:
    """
    pre: sl(nrows=nrows, s1=s1)
    pre: 0 <= nrows <= 2 and 0 <= s1 < 8 and 4 <= s2 < 8 and 0 <= orow <= 2
    pre: nrows >= 2 or (s2 == 4 and not (f21 or f22 or f23))
    pre: nrows >= 1 or not (f11 or f12 or f13 or w1)
    pre: orow != 0 or not (o1 or o2 or o3)
    pre: not f23
    pre: SLICE.get('three', False) or not (f13 or o3)
    post: _
    """
    with concrete():
        pool = fx.pool(CFG)
        dao = pool.workflow_db_mgr.pri_dao
    nrows, s1 = fork_int(nrows, 0, 2), fork_int(s1, 0, 7)
    orow = fork_int(orow, 0, 2)
    q1, q2 = fork_bool(q1), fork_bool(q2)
    with concrete():
        flows = {3} if q2 else ({1, 2} if q1 else {1})   # spawning flows
    rows = []
    if nrows >= 1:
        rows.append((1, fork_bool(w1), _bits(f11, f12, f13), fx.STATUSES[s1]))
    if nrows >= 2:
        s2 = fork_int(s2, 0, 7)
        rows.append((2, False, _bits(f21, f22, f23), fx.STATUSES[s2]))
    dao.prev_instances[('c', '2')] = rows
    oflows = set()
    if OUT_ROWS[orow] is not None:
        oflows = _bits(o1, o2, o3)
        dao.task_outputs[('c', '2')] = {OUT_ROWS[orow]: oflows}
    with concrete():
        fl = set(flows)
    got = pool.spawn_task('c', IntegerPoint('2'), fl)
    # reference: first overlapping finished row decides
    status = None
    for _n, _w, rf, st in rows:
        if rf & flows:
            status = st
            if st in FINAL:
                break
    complete = orow == 2 and bool(oflows & flows)
    any_out = orow != 0 and bool(oflows & flows)
    max_sub = max([r[0] for r in rows], default=0)
    if status is not None and not any_out:
        return got is None               # "removed" bodge
    if status in FINAL and complete:
        return got is None               # finished and complete: not re-run
    if got is None:
        return False
    if got.flow_nums != flows or got.submit_num != max_sub:
        return False
    if status in FINAL:
        return got.state.status == status   # revived as incomplete, not reset
    return got.state.status == (status or 'waiting')


def OBLIGATIONS(tier):
    big = tier == 'thorough'
    t = 1500 if big else 160
    obs = []
    for o1 in range(10):
        obs.append(Ob(f'counter[o1={o1}]', 'counter', timeout=t,
                      twin=(o1 == 0), slice={'o1': o1, 'n': 3}))
    obs.append(Ob('spawn_union', 'spawn_union', timeout=t))
    obs.append(Ob('no_rerun[rows=0]', 'no_rerun', timeout=t,
                  slice={'nrows': 0, 's1': 0}))
    for s1 in range(8):
        obs.append(Ob(f'no_rerun[rows=1,s1={fx.STATUSES[s1]}]', 'no_rerun',
                      timeout=t, twin=(s1 == 0),
                      slice={'nrows': 1, 's1': s1, 'three': big}))
    if big:
        for s1 in range(8):
            obs.append(Ob(f'no_rerun[rows=2,s1={fx.STATUSES[s1]}]',
                          'no_rerun', timeout=t, twin=(s1 == 0),
                          slice={'nrows': 2, 's1': s1}))
    return obs


def VALIDATE():
    n = 0
    SLICE.update(n=5, o1=0)
    assert counter(0, 3, 9, 0, 6)
    SLICE.update(o1=5)
    assert counter(5, 7, 0, 0, 2)
    SLICE.clear()
    assert spawn_union(True, False, True, False, True, False, False, 0)
    assert spawn_union(True, True, False, False, False, False, False, 0)
    assert spawn_union(False, False, False, False, False, False, False, 0)
    SLICE.update(nrows=1, s1=7)
    assert no_rerun(1, 7, 4, True, False, False, False, False, False, False,
                    False, False, 2, True, False, False)
    SLICE.update(nrows=0, s1=0)
    assert no_rerun(0, 0, 4, False, False, False, False, False, False, False,
                    True, False, 0, False, False, False)
    SLICE.clear()
    return n + 7

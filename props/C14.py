"""C14 — graph parsing is faithful and insensitive to presentation."""
import itertools

from vf.api import Ob, SLICE

from props._graph import parse, formula, to_z3

META = dict(
    level='translation_validation',
    technique='z3 equivalence of the trigger formulas the real GraphParser '
              'produces for every rendering of every graph AST in a bounded '
              'family, against each other and against the written expression',
    text='Graph ASTs (left-hand and/or/parenthesised expressions over up to '
         'three task outputs incl. custom and optional ones, one or two '
         'right-hand tasks, optional two-step chains, one or two lines) are '
         'enumerated; each is rendered in the presentation variants the '
         'property names (chain vs separate pairs, whitespace, comments, line '
         'continuation after arrows and operators, duplicated lines, line '
         'order) and parsed by the real GraphParser. For every dependent task '
         'z3 proves that the conjunction of the trigger expressions produced '
         'is logically equivalent (a) across all renderings and (b) to the '
         'Boolean expression that was written; the set of dependent tasks, '
         'the parentless tasks and the output-optionality table must be '
         'identical across renderings.',
    note='the text handed to the parser is concrete (the parser is '
         'regex-over-text code); the enumeration of ASTs and renderings is '
         'the bound, the solver decides the semantic equality. Rejection of '
         'malformed lines is NOT claimed (outside). Families: C15.',
    functions=['GraphParser.parse_graph', '_proc_dep_pair', '_split_exprs / '
               'line-continuation handling', '_compute_triggers',
               '_set_output_opt / _set_triggers'],
    bounds=['left: and/or trees with <= 3 leaves over a, b:x?, c? (7 shapes); '
            'right: d | d & e | m => d chain | m & n => d chain; further '
            'lines: none | a => e | c? => d | e => m + m => x (a mid-chain '
            'node that also ends another line)', '8-9 renderings per AST',
            'thorough adds right sides m => n => d | m & n => d & e | m => d '
            '& e and three more sets of further lines'],
    stubs=['none'],
    assumptions=[],
    outside=['malformed-line rejection', 'parameters, xtriggers, suicide '
             'triggers, offsets (offsets appear in C13/C07 fixtures)'],
)

LEAVES = ['a', 'b:x?', 'c?']
LHS = ['{0}', '{0} & {1}', '{0} | {1}', '{0} & {1} & {2}', '{0} | {1} | {2}',
       '{0} & ({1} | {2})', '({0} & {1}) | {2}', '({0} | {1}) & {2}',
       '{0} | {1} & {2}']
RHS = ['d', 'd & e', 'm => d', 'm & n => d']
EXTRA = [None, 'a => e', 'c? => d', 'e => m\nm => x']


RHS_BIG = RHS + ['m => n => d', 'm & n => d & e', 'm => d & e']
EXTRA_BIG = EXTRA + ['a => e\nc? => d', 'e => m\nm => x\nb:x? => n',
                     'e => n']


def cases(big=False):
    for li, lhs in enumerate(LHS):
        for perm in itertools.permutations(LEAVES):
            if li == 0 and perm[1:] != tuple(
                    x for x in LEAVES if x != perm[0]):
                continue
            for rhs in (RHS_BIG if big else RHS):
                for extra in (EXTRA_BIG if big else EXTRA):
                    yield lhs.format(*perm), rhs, extra


def renderings(lhs, rhs, extra):
    base = f'{lhs} => {rhs}'
    lines = [base] + ([extra] if extra else [])
    out = {'canonical': '\n'.join(lines)}
    out['nospace'] = '\n'.join(x.replace(' ', '') for x in lines)
    out['spaces'] = '\n'.join(
        '   ' + x.replace(' => ', '  =>\t ').replace(' & ', '   &  ')
        for x in lines)
    out['comment'] = '\n'.join(x + '  # a comment & | =>' for x in lines)
    out['cont_arrow'] = '\n'.join(x.replace(' => ', ' =>\n    ')
                                  for x in lines)
    out['cont_op'] = '\n'.join(
        x.replace(' & ', ' &\n   ').replace(' | ', ' |\n   ')
        for x in lines)
    out['dup'] = '\n'.join(lines + [base])
    out['reorder'] = '\n'.join(reversed(lines))
    if '=>' in rhs:           # chain vs separate pairs
        parts = [x.strip() for x in rhs.split('=>')]
        out['pairs'] = '\n'.join(
            [f'{lhs} => {parts[0]}'] + [
                f'{a} => {b}' for a, b in zip(parts, parts[1:])]
            + ([extra] if extra else []))
    return out


def written(lhs):
    """The Boolean expression as written -> parser atom syntax."""
    import re
    atom = {'b:x?': 'b:x', 'c?': 'c:succeeded', 'a': 'a:succeeded',
            'e': 'e:succeeded'}
    return re.sub(r'[a-z][a-z:?]*', lambda m: atom[m.group(0)],
                  lhs).replace(' ', '')


def smt_presentation(slc):
    import z3
    from vf.smtx import Session
    ses = Session()
    n = 0
    lo, hi = slc.get('range', (0, 10 ** 9))
    for idx, (lhs, rhs, extra) in enumerate(cases(slc.get('big', False))):
        if not (lo <= idx < hi):
            continue
        rs = renderings(lhs, rhs, extra)
        canon = parse(rs['canonical'])
        if canon is None:
            return ses.result('sat', message=f'{rs["canonical"]!r} rejected',
                              call={'fn': 'replay', 'args': [lhs, rhs, extra,
                                                             'canonical']},
                              programs=n)
        ctrig, copt = canon
        # (b) the dependant of the written expression
        first = rhs.split('=>')[0].split('&')[0].strip()
        env = {}
        f_written = to_z3(written(lhs), env)
        for xl in (extra or '').split('\n'):
            if xl.endswith('=> ' + first):
                # the line adds one more prerequisite to the same task
                f_written = z3.And(f_written, to_z3(
                    written(xl.split('=>')[0].strip()), env))
        r, _ = ses.check(formula(ctrig[first], env) != f_written,
                         label=f'written {lhs} => {first}')
        n += 1
        if r != 'unsat':
            return ses.result(
                'sat' if r == 'sat' else 'unknown',
                message=f'{rs["canonical"]!r}: triggers of {first} '
                f'{ctrig[first]} differ from the written expression',
                call={'fn': 'replay', 'args': [lhs, rhs, extra, 'canonical']},
                programs=n)
        # (a) every rendering is equivalent to the canonical one
        for name, text in rs.items():
            got = parse(text)
            n += 1
            if got is None or set(got[0]) != set(ctrig) or got[1] != copt:
                return ses.result(
                    'sat', message=f'rendering {name} of {rs["canonical"]!r} '
                    f'parsed differently: {got} vs {canon}',
                    call={'fn': 'replay', 'args': [lhs, rhs, extra, name]},
                    programs=n)
            for task in ctrig:
                env = {}
                r, _ = ses.check(formula(got[0][task], env)
                                 != formula(ctrig[task], env),
                                 label=f'{name}: {task}')
                if r != 'unsat':
                    return ses.result(
                        'sat' if r == 'sat' else 'unknown',
                        message=f'rendering {name} of {rs["canonical"]!r}: '
                        f'{task} <- {got[0][task]} vs {ctrig[task]}',
                        call={'fn': 'replay',
                              'args': [lhs, rhs, extra, name]}, programs=n)
    return ses.result('unsat', programs=n)


def replay(lhs, rhs, extra, name) -> bool:
    """Truth-table comparison (no solver) of one rendering with the canonical
    one and with the written expression."""
    rs = renderings(lhs, rhs, extra)
    canon, got = parse(rs['canonical']), parse(rs[name])
    if canon is None or got is None:
        return False
    if set(canon[0]) != set(got[0]) or canon[1] != got[1]:
        return False
    atoms = ['a:succeeded', 'b:x', 'c:succeeded', 'm:succeeded',
             'd:succeeded', 'n:succeeded', 'e:succeeded']

    def ev(exprs, env):
        return all(eval(
            e.replace('&', ' and ').replace('|', ' or '), {},
            {k.replace(':', '_'): v for k, v in env.items()})
            for e in [x.replace(':', '_') for x in exprs])
    for vals in itertools.product((False, True), repeat=len(atoms)):
        env = dict(zip(atoms, vals))
        for task in canon[0]:
            if ev(canon[0][task], env) != ev(got[0][task], env):
                return False
    return True


def OBLIGATIONS(tier):
    big = tier == 'thorough'
    t = 1200 if big else 170
    total = len(list(cases(big)))
    k = 16 if big else 8
    step = (total + k - 1) // k
    return [Ob(f'smt_presentation[{i * step}..]', 'smt_presentation',
               kind='smt', timeout=t, twin=False,
               slice={'range': (i * step, (i + 1) * step), 'big': big})
            for i in range(k)]


def VALIDATE():
    import z3
    n = 0
    # the expression translator against Python's own evaluation
    for src in ('a:x&(b:succeeded|c:y)', 'a:succeeded|b:x&c:succeeded',
                '(a:succeeded|b:x)&c:succeeded', 'a:succeeded'):
        env = {}
        f = to_z3(src, env)
        names = sorted(env)
        for vals in itertools.product((False, True), repeat=len(names)):
            asg = dict(zip(names, vals))
            py = eval(src.replace(':', '_').replace('&', ' and ').replace(
                '|', ' or '), {}, {k.replace(':', '_'): v
                                   for k, v in asg.items()})
            got = z3.is_true(z3.simplify(z3.substitute(
                f, *[(env[k], z3.BoolVal(v)) for k, v in asg.items()])))
            assert got == py, (src, asg)
            n += 1
    # tests/unit/test_graph_parser.py style literals
    t, o = parse('a => b => c')
    assert t['c'] == ['b:succeeded'] and t['b'] == ['a:succeeded']
    t, o = parse('a & b => c')
    assert t['c'] == ['a:succeeded', 'b:succeeded']
    assert replay('a & (b:x? | c?)', 'm => d', 'a => e', 'pairs')
    return n + 3

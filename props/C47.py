"""C47 — platform and host selection avoids unreachable hosts."""
import re
from types import SimpleNamespace as NS

from vf.api import Ob, sl, SLICE, fork_int, fork_bool

import cylc.flow.platforms as P
from cylc.flow.exceptions import (
    NoHostsError, NoPlatformsError, PlatformLookupError)

META = dict(
    level='model_checking',
    text='Bounded symbolic execution of the real get_host_from_platform, '
         'get_platform_from_group and platform_from_name: the bad-host bit of '
         'every host, the selection method, the random choice, the order and '
         'presence of platform definitions and the requested name are '
         'symbolic; z3 decides every path: a bad host / an all-bad platform is '
         'never returned while a good alternative exists, the no-hosts / '
         'no-platforms error is raised exactly when none remains, and a name '
         'resolves to the last-defined fully matching pattern.',
    note='<= 4 hosts per platform, 3 platforms per group (2 hosts each), 6 '
         'candidate platform patterns (regex, comma lists, literal) in '
         'symbolic presence/order; glbl_cfg() replaced by a stand-in '
         'returning the harness dictionaries; random.choice replaced by '
         'a symbolic index (all choices explored).',
    functions=['get_host_from_platform', 'get_platform_from_group',
               'platform_from_name', 'HOST_SELECTION_METHODS'],
    bounds=['hosts: 1..4, symbolic bad bit each, both methods',
            'group: 3 platforms x 2 hosts, 6 symbolic bad bits, both methods',
            'names: 5 of 6 patterns in symbolic presence and rotation, 7 '
            'requested names'],
    stubs=['cylc.flow.platforms.glbl_cfg -> stand-in with the harness '
           'platform dictionaries', 'random.choice -> element at an arbitrary '
           '(symbolic) index'],
    assumptions=[],
    outside=['remote-init / ssh 255 detection that populates bad_hosts',
             'get_platform (task config -> platform name, subshells)'],
)

HOSTS = ['h0', 'h1', 'h2', 'h3']
METHODS = ['definition order', 'random']


def _choice(r):
    # random.choice -> arbitrary (symbolic) index
    def choose(seq):
        for i in range(len(seq)):
            if r == i:
                return seq[i]
        return seq[-1]
    return choose


def host_select(n: int, b0: bool, b1: bool, b2: bool, b3: bool,
                m: int, r: int) -> bool:
    """
    pre: 1 <= n <= 4 and 0 <= m <= 1 and 0 <= r <= 3
    post: _
    """
    P.HOST_SELECTION_METHODS['random'] = _choice(r)
    hosts = HOSTS[:fork_int(n, 1, 4)]
    bad = {h for h, b in zip(hosts, (b0, b1, b2, b3)) if b}
    good = [h for h in hosts if h not in bad]
    plat = {'hosts': list(hosts), 'name': 'p',
            'selection': {'method': METHODS[fork_int(m, 0, 1)]}}
    try:
        got = P.get_host_from_platform(plat, bad)
    except NoHostsError:
        return not good
    if not good or got not in good:
        return False
    if m == 0 and got != good[0]:
        return False
    return plat['hosts'] == hosts          # definition not consumed


PLATS = {
    'localhost': {'hosts': ['localhost'],
                  'selection': {'method': 'definition order'}},
    'pa': {'hosts': ['a0', 'a1'], 'selection': {'method': 'random'}},
    'pb': {'hosts': ['b0', 'b1'],
           'selection': {'method': 'definition order'}},
    'pc': {'hosts': ['c0', 'a1'], 'selection': {'method': 'random'}},
}


class _Glbl:
    def __init__(self, platforms, groups):
        self.d = {'platforms': platforms, 'platform groups': groups}

    def get(self, keys, *a, **k):
        return self.d[keys[0]]


def group_select(a0: bool, a1: bool, b0: bool, b1: bool, c0: bool, m: int,
                 via_name: bool, r: int) -> bool:
    """
    pre: 0 <= m <= 1 and 0 <= r <= 2
    post: _
    """
    P.HOST_SELECTION_METHODS['random'] = _choice(r)
    bad = {h for h, b in zip(('a0', 'a1', 'b0', 'b1', 'c0'),
                             (a0, a1, b0, b1, c0)) if b}
    group = {'platforms': ['pa', 'pb', 'pc'],
             'selection': {'method': METHODS[fork_int(m, 0, 1)]}}
    P.glbl_cfg = lambda *a, **k: _Glbl(PLATS, {'grp': group})
    usable = [p for p in group['platforms']
              if not set(PLATS[p]['hosts']) <= bad]
    try:
        if via_name:
            got = P.platform_from_name('grp', bad_hosts=bad)['name']
        else:
            got = P.get_platform_from_group(group, 'grp', bad)
    except NoPlatformsError:
        return not usable
    if got not in usable:
        return False
    if m == 0 and got != usable[0]:
        return False
    # and the host then chosen on that platform is a good one
    host = P.get_host_from_platform(
        dict(PLATS[got], name=got), bad)
    return host in PLATS[got]['hosts'] and host not in bad


PATTERNS = ['hpc\\d', 'hpc1, hpc2', 'hpc.*', 'desk', 'hpc1|desk2', 'h.c1']
NAMES = ['hpc1', 'hpc2', 'hpc12', 'desk', 'desk2', 'hxc1', 'nope']


def name_resolve(p0: bool, p1: bool, p2: bool, p3: bool, p4: bool, p5: bool,
                 rot: int, ni: int) -> bool:
    """
    pre: sl(ni=ni)
    pre: 0 <= rot < 6 and 0 <= ni < len(NAMES)
    post: _
    """
    rot, ni = fork_int(rot, 0, 5), fork_int(ni, 0, len(NAMES) - 1)
    present = [fork_bool(b) for b in (p0, p1, p2, p3, p4, p5)]
    order = [(i + rot) % 6 for i in range(6)]
    platforms = {'localhost': dict(PLATS['localhost'])}
    for i in order:
        if present[i]:
            platforms[PATTERNS[i]] = {
                'hosts': [], 'tag': i,
                'selection': {'method': 'definition order'}}
    P.glbl_cfg = lambda *a, **k: _Glbl(platforms, {})
    name = NAMES[ni]
    want = None
    for pat, data in platforms.items():         # definition order
        alt = '|'.join(x.strip() for x in pat.split(','))
        if re.fullmatch(alt, name):
            want = data                           # last one wins
    try:
        got = P.platform_from_name(name, platforms)
    except PlatformLookupError:
        return want is None
    if want is None:
        return False
    return (got.get('tag') == want.get('tag') and got['name'] == name
            and got['hosts'] == [name]
            and all(not v['hosts'] for k, v in platforms.items()
                    if k != 'localhost'))


def OBLIGATIONS(tier):
    big = tier == 'thorough'
    t = 1200 if big else 150
    obs = [Ob('host_select', 'host_select', timeout=t),
           Ob('group_select', 'group_select', timeout=t)]
    for ni in range(len(NAMES)):
        obs.append(Ob(f'name_resolve[{NAMES[ni]}]', 'name_resolve',
                      timeout=t, slice={'ni': ni}))
    return obs


def VALIDATE():
    n = 0
    # literals in the style of tests/unit/test_platforms.py
    assert host_select(3, True, False, False, False, 0, 0)
    assert host_select(2, True, True, False, False, 1, 1)
    assert group_select(True, True, False, False, False, 0, False, 0)
    assert group_select(True, True, True, True, True, 1, True, 2)
    SLICE['ni'] = 0
    assert name_resolve(True, True, True, False, False, False, 0, 0)
    assert name_resolve(False, False, False, True, False, False, 3, 0)
    SLICE.clear()
    return n + 6

"""C48 — installed run directories are numbered and runN tracks the latest."""
import os
import re
import shutil
import tempfile
from pathlib import Path

from vf.api import Ob, sl, SLICE, concrete, fork_int, fork_bool, kf

from cylc.flow import pathutil
from cylc.flow.clean import clean
from cylc.flow.exceptions import WorkflowFilesError
from cylc.flow.install import install_workflow, reinstall_workflow

META = dict(
    level='model_checking',
    technique='bounded symbolic execution (CrossHair + z3) over symbolic '
              'operation sequences (the solver certifies that every sequence '
              'in the bounded family was generated); each sequence runs the '
              'real install / reinstall / clean functions on a scratch '
              'cylc-run directory and the resulting tree is inspected',
    text='Sequences of up to four operations - install (numbered), install '
         'with an explicit run name, install with --no-run-name, reinstall '
         'of the latest run, clean of run1 / run2 / the latest run / the '
         'named run - are executed with the real install_workflow, '
         'reinstall_workflow and clean (local part) on a scratch cylc-run '
         'directory. After every operation z3 decides on every path that a '
         'successful numbered install created exactly one new directory '
         'runK with K greater than every numbered run present before (run1 '
         'when none was), that without cleaning the numbers are 1, 2, 3, '
         '..., that no existing run directory was modified or replaced by '
         'an install (a marker file written after each install survives, '
         'and its content is unchanged), that runN exists and points to the '
         'run created last by a numbered install unless that run was '
         'cleaned (then it is absent or still valid, never dangling), that '
         'named and numbered runs are never mixed, and that a refused '
         'operation leaves the tree unchanged.',
    note='rsync and the filesystem are real; symlink-dir configuration is '
         'the default (none); remote clean is outside.',
    functions=['install_workflow', 'get_run_dir_info',
               'get_next_rundir_number', 'link_runN / unlink_runN',
               'reinstall_workflow', 'clean (local)', 'detect_flow_exists',
               'check_nested_dirs'],
    bounds=['sequences of 1..4 operations out of 8 kinds (quick: 3)',
            'pre-states: 64 subsets of {1, 2, 9, 10, 11, 100} x 2 runN states'],
    stubs=['cylc-run directory redirected to a scratch directory '
           '(pathutil._CYLC_RUN_DIR)'],
    assumptions=[],
    outside=['symlink dirs from global config', 'remote installs / clean',
             'cylc install of nested source directories'],
)

OPS = ['install', 'install-named', 'install-flat', 'reinstall', 'clean1',
       'clean2', 'clean-latest', 'clean-named']


def snapshot(base):
    """{relative path: marker content / link target} of the run dirs."""
    out = {}
    if not base.exists():
        return out
    for p in sorted(base.iterdir()):
        if p.is_symlink():
            out[p.name] = ('link', os.readlink(p))
        elif p.is_dir() and p.name != '_cylc-install':
            marker = p / 'MARKER'
            out[p.name] = ('dir', marker.read_text()
                           if marker.exists() else None)
    return out


def numbered(snap):
    return sorted(int(m.group(1)) for k in snap
                  if (m := re.fullmatch(r'run(\d+)', k))
                  and snap[k][0] == 'dir')


def _run(ops):
    d = tempfile.mkdtemp(prefix='cylc-verif-c48-')
    old = pathutil._CYLC_RUN_DIR
    cwd = os.getcwd()
    try:
        run_root = os.path.join(d, 'cylc-run')
        os.mkdir(run_root)
        pathutil._CYLC_RUN_DIR = run_root
        src = Path(d, 'src', 'wf')
        src.mkdir(parents=True)
        (src / 'flow.cylc').write_text(
            '[scheduling]\n    [[graph]]\n        R1 = a\n'
            '[runtime]\n    [[a]]\n')
        base = Path(run_root, 'wf')
        last_numbered = None
        counter = 0
        cleaned = False
        for op in ops:
            before = snapshot(base)
            kind = OPS[op]
            ok = True
            try:
                if kind == 'install':
                    _s, rundir, _n, _r = install_workflow(src, 'wf')
                elif kind == 'install-named':
                    _s, rundir, _n, _r = install_workflow(
                        src, 'wf', run_name='named')
                elif kind == 'install-flat':
                    _s, rundir, _n, _r = install_workflow(
                        src, 'wf', no_run_name=True)
                elif kind == 'reinstall':
                    nums = numbered(before)
                    if not nums:
                        continue
                    target = base / f'run{nums[-1]}'
                    reinstall_workflow(src, f'wf/run{nums[-1]}', target)
                    continue
                else:
                    name = {'clean1': 'run1', 'clean2': 'run2',
                            'clean-named': 'named'}.get(kind)
                    if name is None:
                        nums = numbered(before)
                        if not nums:
                            continue
                        name = f'run{nums[-1]}'
                    if not (base / name).is_dir():
                        continue
                    clean(f'wf/{name}', base / name)
                    cleaned = True
                    after = snapshot(base)
                    if name in after:
                        return False
                    # everything else untouched, runN never dangling
                    for k, v in before.items():
                        if k in (name, 'runN'):
                            continue
                        if after.get(k) != v:
                            return False
                    if 'runN' in after and after['runN'][1] not in after:
                        return False
                    if last_numbered == name:
                        last_numbered = None
                    continue
            except WorkflowFilesError:
                ok = False
            after = snapshot(base)
            if not ok:
                if after != before:
                    return False          # a refused install changed things
                continue
            # --- a successful install
            counter += 1
            (rundir / 'MARKER').write_text(str(counter))
            after = snapshot(base)
            new = set(after) - set(before) - {'runN'}
            if kind == 'install-flat':
                # wf itself is the run directory: nothing else may exist
                if numbered(before) or 'named' in before:
                    return False
                continue
            if len(new) != 1 or rundir.name not in new:
                return False
            for k, v in before.items():
                if k != 'runN' and after.get(k) != v:
                    return False          # an existing run was touched
            if kind == 'install':
                k = int(rundir.name[3:])
                prev = numbered(before)
                if prev and k <= prev[-1]:
                    return False
                if not prev and not cleaned and k != 1:
                    return False
                if not cleaned and prev and k != prev[-1] + 1:
                    return False
                if 'named' in before:
                    return False          # numbered and named runs mixed
                if after.get('runN') != ('link', rundir.name):
                    return False
                last_numbered = rundir.name
            else:
                if numbered(before):
                    return False          # named run next to numbered runs
        # --- at the end: runN tracks the latest numbered install
        final = snapshot(base)
        if last_numbered is not None:
            if final.get('runN') != ('link', last_numbered):
                return False
        return True
    finally:
        os.chdir(cwd)
        pathutil._CYLC_RUN_DIR = old
        shutil.rmtree(d, ignore_errors=True)


def sequence(o1: int, o2: int, o3: int, o4: int, n: int) -> bool:
    """
    pre: sl(o1=o1)
    pre: 0 <= o1 < 8 and 0 <= o2 < 8 and 0 <= o3 < 8 and 0 <= o4 < 8
    pre: 1 <= n <= SLICE.get('n', 4)
    pre: n >= 4 or o4 == 0
    pre: n >= 3 or o3 == 0
    pre: n >= 2 or o2 == 0
    post: _
    """
    ops = [fork_int(o, 0, 7) for o in (o1, o2, o3, o4)]
    n = fork_int(n, 1, 4)
    with concrete():
        return _run(ops[:n])


NUMS = [1, 2, 9, 10, 11, 100]


def _prestate(mask, link):
    """One numbered install on top of an arbitrary set of existing runs
    (built directly: run dirs, _cylc-install/source, runN or not)."""
    d = tempfile.mkdtemp(prefix='cylc-verif-c48p-')
    old = pathutil._CYLC_RUN_DIR
    cwd = os.getcwd()
    try:
        run_root = os.path.join(d, 'cylc-run')
        os.mkdir(run_root)
        pathutil._CYLC_RUN_DIR = run_root
        src = Path(d, 'src', 'wf')
        src.mkdir(parents=True)
        (src / 'flow.cylc').write_text(
            '[scheduling]\n    [[graph]]\n        R1 = a\n'
            '[runtime]\n    [[a]]\n')
        base = Path(run_root, 'wf')
        have = [n for i, n in enumerate(NUMS) if mask >> i & 1]
        if have:
            (base / '_cylc-install').mkdir(parents=True)
            (base / '_cylc-install' / 'source').symlink_to(src)
        for n in have:
            (base / f'run{n}').mkdir()
            (base / f'run{n}' / 'flow.cylc').write_text('x')
            (base / f'run{n}' / 'MARKER').write_text(str(n))
        # runN: absent (the latest run was cleaned) or on the latest run -
        # the only two states install / clean sequences can reach
        if have and link == 1:
            (base / 'runN').symlink_to(f'run{max(have)}')
        before = snapshot(base)
        try:
            _s, rundir, _n, _r = install_workflow(src, 'wf')
        except WorkflowFilesError:
            return False
        after = snapshot(base)
        new = set(after) - set(before) - {'runN'}
        if new != {rundir.name}:
            return False
        k = int(rundir.name[3:])
        if have and k <= max(have):
            return False
        if not have and k != 1:
            return False
        for name, v in before.items():
            if name != 'runN' and after.get(name) != v:
                return False
        return after.get('runN') == ('link', rundir.name)
    finally:
        os.chdir(cwd)
        pathutil._CYLC_RUN_DIR = old
        shutil.rmtree(d, ignore_errors=True)


def prestate(mask: int, link: int) -> bool:
    """
    pre: 0 <= mask < 64 and 0 <= link <= 1
    post: _
    """
    mask, link = fork_int(mask, 0, 63), fork_int(link, 0, 1)
    with concrete():
        return _prestate(mask, link)


def OBLIGATIONS(tier):
    big = tier == 'thorough'
    t = 2400 if big else 170
    return [Ob(f'sequence[first={OPS[o]}]', 'sequence', timeout=t,
               twin=(o == 0), slice={'o1': o, 'n': 4 if big else 3})
            for o in range(3)] + [Ob('prestate', 'prestate', timeout=t)]


def VALIDATE():
    n = 0
    assert _run([0, 0, 0])
    assert _run([0, 0, 5, 0]) and _run([1, 0, 7])
    assert _prestate(0, 0) and _prestate(0b001100, 0) and _prestate(3, 1)
    return n + 6

"""C10 — stale, duplicate and out-of-order job messages cannot corrupt
state."""
from vf.api import Ob, sl, concrete, SLICE, within
from props._msg import ET  # noqa
from props._msg import (
    MSGS, ST, RANK, TARGET, FLAGS, TIMERS, setup, snap, outputs_of, invariant,
    CFG, retry_lined_up)

META = dict(
    level='model_checking',
    text='One-step bounded symbolic execution of the real '
         'TaskEventsManager.process_message (and everything it calls in '
         'TaskState / TaskOutputs / TaskActionTimer) on a real TaskProxy from '
         'an over-approximated pre-state: status, message, flag, submit '
         'numbers, retry-timer state and completed-output bits are symbolic; '
         'z3 decides every path. Stale messages change nothing; backward '
         'messages poll; duplicates are idempotent and burn no retry.',
    note='One transition from an arbitrary pre-state (inductive step), not '
         'whole interleavings: "final status matches the latest job\'s real '
         'outcome" over complete histories is outside. Collaborators (DB, '
         'data store, proc pool, xtrigger manager, event handlers, job '
         'timers) are recording stubs; clock for retry timers is a constant.',
    functions=[
        'TaskEventsManager.process_message', '_process_message_check',
        '_process_message_started/_succeeded/_failed/_submit_failed/'
        '_submitted/_expired', '_retry_task', 'TaskProxy.state_reset',
        'TaskState.reset/is_gt/is_gte', 'TaskOutputs.set_message_complete/'
        'get_incomplete_implied/is_message_complete',
        'TaskActionTimer.next', 'split_run_signal',
    ],
    bounds=['status: all 8; messages: 11 forms (standard, signal, abort, '
            'vacation, custom output, non-output); flags: all 3',
            'current submit number 2 (thorough 1..3), message submit '
            'number 1..3; 7 retry-timer configurations (execution timer '
            'absent or num 0..2 of 2 delays, submission timer absent or num '
            '0..1 of 1)',
            'pre-state outputs: symbolic submitted/started bits plus the '
            'outputs implied by the status'],
    stubs=['workflow_db_mgr', 'data_store_mgr', 'proc_pool', 'broadcast_mgr',
           'xtrigger_mgr (retry xtrigger registration recorded)',
           'setup_event_handlers', '_reset_job_timers', 'spawn_func '
           '(recorded)', 'task_action_timer.time() = constant'],
    assumptions=['live run mode', 'task is not transient / not removed'],
    outside=['whole-history claim: final status equals latest job outcome',
             'TaskJobManager poll-output parsing'],
)


def stale(st: int, msg: int, cur: int, sub: int, c_sub: bool, c_sta: bool,
          tm: int) -> bool:
    """
    pre: sl(st=st, msg=msg)
    pre: 0 <= st < 8 and 0 <= msg < len(MSGS)
    pre: within(cur=cur, sub=sub) and sub != cur and 0 <= tm < len(TIMERS)
    post: _
    """
    mgr, itask = setup(st, cur, c_sub, c_sta, tm)
    before = snap(itask)
    ret = mgr.process_message(
        itask, 'INFO', MSGS[msg], ET, FLAGS[1], sub)
    return (ret is False and snap(itask) == before and not mgr.spawned
            and not mgr.workflow_db_mgr.calls)


def backwards(st: int, msg: int, cur: int, c_sub: bool, c_sta: bool,
              tm: int) -> bool:
    """
    pre: sl(st=st, msg=msg)
    pre: 0 <= st < 8 and 0 <= msg < len(MSGS)
    pre: within(cur=cur) and 0 <= tm < len(TIMERS)
    post: _
    """
    m = MSGS[msg]
    if m not in ('submitted', 'started', 'failed', 'submission failed',
                 'failed/XCPU', 'aborted/oops'):
        return True
    mgr, itask = setup(st, cur, c_sub, c_sta, tm)
    before = snap(itask)
    outs = outputs_of(itask)
    ret = mgr.process_message(itask, 'INFO', m, ET, FLAGS[1], cur)
    after = snap(itask)
    ignored = (ST[st] == 'waiting' and retry_lined_up(tm))
    if RANK[TARGET[m]] < RANK[ST[st]] and not ignored:
        # behind the current status: poll, no status / timer change
        if ret is not True:
            return False
        if after[0] != before[0] or after[2] != before[2]:
            return False
    if ignored and (ret is not False or after != before):
        return False
    return outs <= outputs_of(itask) and invariant(itask)


def duplicate(st: int, msg: int, cur: int, c_sub: bool, c_sta: bool,
              tm: int) -> bool:
    """
    pre: sl(st=st, msg=msg)
    pre: 0 <= st < 8 and 0 <= msg < len(MSGS)
    pre: within(cur=cur) and 0 <= tm < len(TIMERS)
    post: _
    """
    # the same received message delivered twice: the second delivery changes
    # neither status nor outputs and uses up no retry
    m = MSGS[msg]
    if m == 'expired':
        return True       # internal only
    mgr, itask = setup(st, cur, c_sub, c_sta, tm)
    mgr.process_message(itask, 'INFO', m, ET, FLAGS[1], cur)
    mid = snap(itask)
    mgr.process_message(itask, 'INFO', m, ET, FLAGS[1], cur)
    return snap(itask) == mid


def polled(st: int, msg: int, cur: int, c_sub: bool, c_sta: bool,
           tm: int) -> bool:
    """
    pre: sl(st=st, msg=msg)
    pre: 0 <= st < 8 and 0 <= msg < len(MSGS)
    pre: within(cur=cur) and 0 <= tm < len(TIMERS)
    post: _
    """
    # poll results are always believed (may move status back) but never
    # un-complete outputs nor break the outputs invariant
    m = MSGS[msg]
    mgr, itask = setup(st, cur, c_sub, c_sta, tm)
    outs = outputs_of(itask)
    before = snap(itask)
    ret = mgr.process_message(itask, 'INFO', m, ET, FLAGS[2], cur)
    ignored = (ST[st] == 'waiting' and m != 'expired'
               and retry_lined_up(tm))
    if ignored and (ret is not False or snap(itask) != before):
        return False
    return ret is False and outs <= outputs_of(itask) and invariant(itask)


def OBLIGATIONS(tier):
    big = tier == 'thorough'
    t = 1200 if big else 150
    obs = []
    B = {'cur': [1, 3], 'sub': [1, 3]} if big else {'cur': [2, 2],
                                                    'sub': [1, 3]}
    for st in range(8):
        obs.append(Ob(f'stale[st={ST[st]}]', 'stale', timeout=t,
                      slice={'st': st, 'B': B}))
        obs.append(Ob(f'backwards[st={ST[st]}]', 'backwards', timeout=t,
                      slice={'st': st, 'B': B}))
        obs.append(Ob(f'duplicate[st={ST[st]}]', 'duplicate', timeout=t,
                      slice={'st': st, 'B': B}))
        obs.append(Ob(f'polled[st={ST[st]}]', 'polled', timeout=t,
                      slice={'st': st, 'B': B}))
    return obs


def VALIDATE():
    n = 0
    from vf.api import SLICE
    SLICE['B'] = {'cur': [1, 3], 'sub': [1, 3]}
    # literal scenarios of tests/integration/test_task_events_mgr.py style
    for st in range(8):
        for msg in range(len(MSGS)):
            assert stale(st, msg, 2, 1, True, False, 2)
            assert backwards(st, msg, 2, True, True, 4)
            assert polled(st, msg, 2, False, False, 0)
            assert duplicate(st, msg, 2, False, False, tm=msg % 7), (st, msg)
            n += 3
    return n

"""C45 — absolute-trigger outputs satisfy every dependent instance."""
from vf.api import Ob, sl, SLICE, concrete, fork_int, fork_bool
from vf import fx

from cylc.flow.cycling.integer import IntegerPoint

META = dict(
    level='model_checking',
    text='Bounded symbolic execution of the real absolute-trigger path - '
         'TaskTrigger.get_point / get_child_point, generate_graph_children '
         '(is_abs), TaskPool.spawn_on_output (abs_outputs_done, id_match of '
         'all pooled instances), TaskPool.spawn_task (satisfaction from '
         'abs_outputs_done) and load_abs_outputs_for_restart - on a real pool '
         'of fixture "abs" (start[^] => w, start[^]:x & w[-P2] => v on P2): '
         'which dependent instances exist before the absolute output '
         'completes, which are spawned afterwards, which outputs the absolute '
         'parent completes, and whether a restart (fresh pool loading the '
         'recorded absolute outputs) happens in between are symbolic. z3 '
         'decides on every path that the prerequisite atom of every dependent '
         'instance names the same (cycle, task, output) of the absolute '
         'parent, and that it is satisfied exactly when that output was '
         'completed - for instances pooled before, spawned after, or spawned '
         'after a restart - and that the database row is queued once.',
    note='integer cycling; dependants w@{2,4,6,8}, v@{4,6}; parent start@2 '
         'with outputs succeeded and x; restart = new TaskPool fed through '
         'load_abs_outputs_for_restart with the rows the first pool handed '
         'to put_insert_abs_output (the SQL select is outside).',
    functions=['TaskTrigger.get_point', 'TaskTrigger.get_child_point',
               'generate_graph_children', 'TaskPool.spawn_on_output',
               'TaskPool.spawn_task', 'TaskPool.load_abs_outputs_for_restart',
               'TaskProxy.satisfy_me', 'Prerequisite.satisfy_me'],
    bounds=['4 instances of w pooled before or spawned after (bits), v@4 '
            'before/after; outputs of start: succeeded and/or x or failed; '
            'restart bit'],
    stubs=['pri_dao (no history)', 'workflow_db_mgr (records '
           'put_insert_abs_output)', 'data_store_mgr'],
    assumptions=[],
    outside=['SQL select of abs_outputs at restart', 'datetime cycling'],
)

CFG = fx.cfg('abs')
WPTS = [2, 4, 6, 8]


def _atom(task, name, output):
    for pre in task.state.prerequisites:
        for k, v in pre._satisfied.items():
            if k.task == name and k.output == output:
                return k, v
    return None, None


def _run(before, suc, xout, restart, v_before):
    pool = fx.pool(CFG)
    db = pool.workflow_db_mgr
    start = fx.itask(CFG, 'start', 2)
    start.state.is_runahead = False
    pool.add_to_pool(start)
    ws = {}
    for p, b in zip(WPTS, before):
        if b:
            ws[p] = fx.itask(CFG, 'w', p)
            pool.add_to_pool(ws[p])
    v4 = None
    if v_before:
        v4 = fx.itask(CFG, 'v', 4)
        pool.add_to_pool(v4)
    outs = []
    start.state.status = 'succeeded' if suc else 'failed'
    for m in ('submitted', 'started'):
        start.state.outputs.set_message_complete(m)
    if xout:
        start.state.outputs.set_message_complete('xx')
        pool.spawn_on_output(start, 'xx')
        outs.append('xx')
    fin = 'succeeded' if suc else 'failed'
    start.state.outputs.set_message_complete(fin)
    pool.spawn_on_output(start, fin)
    outs.append(fin)
    rows = [c[1] for c in db.calls if c[0] == 'put_insert_abs_output']
    want_rows = set()
    if suc:
        want_rows.add(('2', 'start', 'succeeded'))
    if xout:
        want_rows.add(('2', 'start', 'xx'))
    if set(rows) != want_rows:
        return False
    if restart:
        # a new scheduler: pool rebuilt from the DB rows
        old = pool
        pool = fx.pool(CFG)
        for i, row in enumerate(sorted(rows)):
            pool.load_abs_outputs_for_restart(i, row)
        for t in old.get_tasks():
            pool.add_to_pool(t)
    # dependants spawned afterwards
    for p in WPTS:
        if pool._get_task_by_id(f'{p}/w') is None:
            t = pool.spawn_task('w', IntegerPoint(str(p)), {1})
            if t is None:
                return False
            pool.add_to_pool(t)
    if pool._get_task_by_id('4/v') is None:
        t = pool.spawn_task('v', IntegerPoint('4'), {1})
        if t is None:
            return False
        pool.add_to_pool(t)
    t6 = pool.spawn_task('v', IntegerPoint('6'), {1})
    if t6 is None:
        return False
    pool.add_to_pool(t6)
    for p in WPTS:
        w = pool._get_task_by_id(f'{p}/w')
        k, v = _atom(w, 'start', 'succeeded')
        if k is None or k.point != '2':
            return False             # same absolute atom for every instance
        if bool(v) != suc:
            return False
        if w.state.prerequisites_all_satisfied() != suc:
            return False
    for p in (4, 6):
        vv = pool._get_task_by_id(f'{p}/v')
        k, v = _atom(vv, 'start', 'xx')
        if k is None or k.point != '2' or bool(v) != xout:
            return False
        k2, v2 = _atom(vv, 'w', 'succeeded')
        if k2 is None or bool(v2):
            return False             # the ordinary atom is untouched
    return True


def abs_trigger(b2: bool, b4: bool, b6: bool, b8: bool, suc: bool, xout: bool,
                restart: bool, v_before: bool) -> bool:
    """
    post: _
    """
    bits = [fork_bool(b) for b in (b2, b4, b6, b8, suc, xout, restart,
                                   v_before)]
    with concrete():
        return _run(bits[:4], bits[4], bits[5], bits[6], bits[7])


def OBLIGATIONS(tier):
    big = tier == 'thorough'
    t = 1200 if big else 160
    return [Ob('abs_trigger', 'abs_trigger', timeout=t)]


def VALIDATE():
    n = 0
    assert _run([True, False, True, False], True, False, False, False)
    assert _run([False, False, False, False], True, True, True, True)
    assert _run([True, True, True, True], False, False, False, False)
    return n + 3

"""C45 — absolute-trigger outputs satisfy every dependent instance."""
from vf.api import Ob, sl, SLICE, concrete, fork_int, fork_bool
from vf import fx

from cylc.flow.cycling.integer import IntegerPoint

META = dict(
    level='model_checking',
    text='Bounded symbolic execution of the real absolute-trigger path - '
         'TaskTrigger.get_point / get_child_point, generate_graph_children '
         '(is_abs), TaskPool.spawn_on_output (abs_outputs_done, id_match of '
         'all pooled instances), TaskPool.spawn_task (satisfaction from '
         'abs_outputs_done) and load_abs_outputs_for_restart - on a real pool '
         'of fixtures "abs" (start[^] => w, start[^]:x & w[-P2] => v on P2) '
         'and "abs2" (start[2] => w, start[^+P1]:x & w[-P2] => v on P2 from '
         'point 1, so the parent is not at the head of the recurrence): '
         'which dependent instances exist before the absolute output '
         'completes, which are spawned afterwards, which outputs the absolute '
         'parent completes, and whether a restart (fresh pool loading the '
         'recorded absolute outputs) happens in between are symbolic. z3 '
         'decides on every path that the prerequisite atom of every dependent '
         'instance names the same (cycle, task, output) of the absolute '
         'parent, and that it is satisfied exactly when that output was '
         'completed - for instances pooled before, spawned after, or spawned '
         'after a restart - and that the database row is queued once. '
         'Obligation abs_two (fixture abs3): a dependant with two absolute '
         'prerequisites written on lines of their own gets both satisfied, '
         'whichever parent completes first.',
    note='integer cycling; dependants w@{2,4,6,8}, v@{4,6}; parent start@2 '
         'with outputs succeeded and x; restart = new TaskPool fed through '
         'load_abs_outputs_for_restart with the rows the first pool handed '
         'to put_insert_abs_output (the SQL select is outside).',
    functions=['TaskTrigger.get_point', 'TaskTrigger.get_child_point',
               'generate_graph_children', 'TaskPool.spawn_on_output',
               'TaskPool.spawn_task', 'TaskPool.load_abs_outputs_for_restart',
               'TaskProxy.satisfy_me', 'Prerequisite.satisfy_me'],
    bounds=['4 instances of w pooled before or spawned after (bits), v@4 '
            'before/after; outputs of start: succeeded and/or x or failed; '
            'restart bit'],
    stubs=['pri_dao (no history)', 'workflow_db_mgr (records '
           'put_insert_abs_output)', 'data_store_mgr'],
    assumptions=[],
    outside=['SQL select of abs_outputs at restart', 'datetime cycling'],
)

CFGS = [fx.cfg('abs'), fx.cfg('abs2')]
# abs:  initial 2; start[^] => w on P2 (w at 2, 4, 6, 8; v from 4)
# abs2: initial 1; start[2] => w, start[^+P1]:x? & w[-P2] => v on P2 (w at 1,
#       3, 5, 7): the absolute parent's point is NOT the first point of the
#       dependants' recurrence
WPTSS = [[2, 4, 6, 8], [1, 3, 5, 7]]
VPTSS = [(4, 6), (3, 5)]


def _atom(task, name, output):
    for pre in task.state.prerequisites:
        for k, v in pre._satisfied.items():
            if k.task == name and k.output == output:
                return k, v
    return None, None


def _run(before, suc, xout, restart, v_before, fi=0):
    CFG, WPTS, (V1, V2) = CFGS[fi], WPTSS[fi], VPTSS[fi]
    pool = fx.pool(CFG)
    db = pool.workflow_db_mgr
    start = fx.itask(CFG, 'start', 2)
    start.state.is_runahead = False
    pool.add_to_pool(start)
    ws = {}
    for p, b in zip(WPTS, before):
        if b:
            ws[p] = fx.itask(CFG, 'w', p)
            pool.add_to_pool(ws[p])
    v4 = None
    if v_before:
        v4 = fx.itask(CFG, 'v', V1)
        pool.add_to_pool(v4)
    outs = []
    start.state.status = 'succeeded' if suc else 'failed'
    for m in ('submitted', 'started'):
        start.state.outputs.set_message_complete(m)
    if xout:
        start.state.outputs.set_message_complete('xx')
        pool.spawn_on_output(start, 'xx')
        outs.append('xx')
    fin = 'succeeded' if suc else 'failed'
    start.state.outputs.set_message_complete(fin)
    pool.spawn_on_output(start, fin)
    outs.append(fin)
    rows = [c[1] for c in db.calls if c[0] == 'put_insert_abs_output']
    want_rows = set()
    if suc:
        want_rows.add(('2', 'start', 'succeeded'))
    if xout:
        want_rows.add(('2', 'start', 'xx'))
    if set(rows) != want_rows:
        return False
    if restart:
        # a new scheduler: pool rebuilt from the DB rows
        old = pool
        pool = fx.pool(CFG)
        for i, row in enumerate(sorted(rows)):
            pool.load_abs_outputs_for_restart(i, row)
        for t in old.get_tasks():
            pool.add_to_pool(t)
    # dependants spawned afterwards
    for p in WPTS:
        if pool._get_task_by_id(f'{p}/w') is None:
            t = pool.spawn_task('w', IntegerPoint(str(p)), {1})
            if t is None:
                return False
            pool.add_to_pool(t)
    if pool._get_task_by_id(f'{V1}/v') is None:
        t = pool.spawn_task('v', IntegerPoint(str(V1)), {1})
        if t is None:
            return False
        pool.add_to_pool(t)
    t6 = pool.spawn_task('v', IntegerPoint(str(V2)), {1})
    if t6 is None:
        return False
    pool.add_to_pool(t6)
    for p in WPTS:
        w = pool._get_task_by_id(f'{p}/w')
        k, v = _atom(w, 'start', 'succeeded')
        if k is None or k.point != '2':
            return False             # same absolute atom for every instance
        if bool(v) != suc:
            return False
        if w.state.prerequisites_all_satisfied() != suc:
            return False
    for p in (V1, V2):
        vv = pool._get_task_by_id(f'{p}/v')
        k, v = _atom(vv, 'start', 'xx')
        if k is None or k.point != '2' or bool(v) != xout:
            return False
        k2, v2 = _atom(vv, 'w', 'succeeded')
        if k2 is None or bool(v2):
            return False             # the ordinary atom is untouched
    return True


def abs_trigger(b2: bool, b4: bool, b6: bool, b8: bool, suc: bool, xout: bool,
                restart: bool, v_before: bool, fi: int) -> bool:
    """
    pre: sl(fi=fi)
    pre: 0 <= fi <= 1
    post: _
    """
    bits = [fork_bool(b) for b in (b2, b4, b6, b8, suc, xout, restart,
                                   v_before)]
    fi = fork_int(fi, 0, 1)
    with concrete():
        return _run(bits[:4], bits[4], bits[5], bits[6], bits[7], fi)


CFG3 = fx.cfg('abs3')


def _two(before, first, restart):
    """A dependant with two separate absolute prerequisites (start[2] => w;
    start2[2] => w on lines of their own): both must be satisfied on every
    instance, whichever completes first, pooled before or spawned after."""
    pool = fx.pool(CFG3)
    db = pool.workflow_db_mgr
    parents = [fx.itask(CFG3, n, 2) for n in ('start', 'start2')]
    for t in parents:
        t.state.is_runahead = False
        pool.add_to_pool(t)
    pts = [1, 3, 5, 7]
    for p, b in zip(pts, before):
        if b:
            pool.add_to_pool(fx.itask(CFG3, 'w', p))
    for t in (parents if first == 0 else reversed(parents)):
        t.state.status = 'succeeded'
        for m in ('submitted', 'started', 'succeeded'):
            t.state.outputs.set_message_complete(m)
        pool.spawn_on_output(t, 'succeeded')
    rows = [c[1] for c in db.calls if c[0] == 'put_insert_abs_output']
    if set(rows) != {('2', 'start', 'succeeded'),
                     ('2', 'start2', 'succeeded')}:
        return False
    if restart:
        old = pool
        pool = fx.pool(CFG3)
        for i, row in enumerate(sorted(rows)):
            pool.load_abs_outputs_for_restart(i, row)
        for t in old.get_tasks():
            pool.add_to_pool(t)
    for p in pts:
        if pool._get_task_by_id(f'{p}/w') is None:
            t = pool.spawn_task('w', IntegerPoint(str(p)), {1})
            if t is None:
                return False
            pool.add_to_pool(t)
    for p in pts:
        w = pool._get_task_by_id(f'{p}/w')
        for name in ('start', 'start2'):
            k, v = _atom(w, name, 'succeeded')
            if k is None or k.point != '2' or not v:
                return False
    return True


def abs_two(b1: bool, b3: bool, b5: bool, b7: bool, first: int,
            restart: bool) -> bool:
    """
    pre: 0 <= first <= 1
    post: _
    """
    bits = [fork_bool(b) for b in (b1, b3, b5, b7, restart)]
    first = fork_int(first, 0, 1)
    with concrete():
        return _two(bits[:4], first, bits[4])


def OBLIGATIONS(tier):
    big = tier == 'thorough'
    t = 1200 if big else 160
    return [Ob(f'abs_trigger[{n}]', 'abs_trigger', timeout=t,
               slice={'fi': i}) for i, n in enumerate(('abs', 'abs2'))] + [
        Ob('abs_two', 'abs_two', timeout=t)]


def VALIDATE():
    n = 0
    assert _run([True, False, True, False], True, False, False, False)
    assert _run([False, False, False, False], True, True, True, True)
    assert _run([True, True, True, True], False, False, False, False)
    assert _run([True, False, False, True], True, True, True, False, 1)
    assert _two([True, False, True, False], 0, False)
    assert _two([False, False, False, False], 1, True)
    return n + 6

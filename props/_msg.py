"""Shared one-step harness: the real TaskEventsManager.process_message on a
real TaskProxy, from an arbitrary (over-approximated) pre-state."""
from vf.api import sl, within, concrete, SLICE
from vf import fx

import cylc.flow.task_action_timer as tat
from cylc.flow.task_action_timer import TaskActionTimer, TimerFlags
from cylc.flow.task_events_mgr import TaskEventsManager

CFG = fx.cfg('basic')
ST = fx.STATUSES
# ['waiting','expired','preparing','submit-failed','submitted','running',
#  'failed','succeeded']
RANK = {s: i for i, s in enumerate(ST)}
MSGS = ['submitted', 'started', 'succeeded', 'failed', 'submission failed',
        'xx', 'hello', 'failed/XCPU', 'aborted/oops', 'expired',
        'vacated/USR1']
#: status a message stands for (None: no status)
TARGET = {'submitted': 'submitted', 'started': 'running',
          'succeeded': 'succeeded', 'failed': 'failed',
          'submission failed': 'submit-failed', 'failed/XCPU': 'failed',
          'aborted/oops': 'failed', 'expired': 'expired',
          'vacated/USR1': 'submitted'}
FLAGS = [TaskEventsManager.FLAG_INTERNAL, TaskEventsManager.FLAG_RECEIVED,
         TaskEventsManager.FLAG_POLLED]
OUT_MSGS = ['expired', 'submitted', 'submit-failed', 'started', 'succeeded',
            'failed', 'xx']

tat.time = lambda: 1000.0      # stub clock for retry timers (not the subject)


#: retry-timer configurations (execution timer num | None, submission
#: timer num | None); execution delays = 2, submission delays = 1
TIMERS = [(None, None), (0, None), (1, None), (2, None), (0, 0), (0, 1),
          (1, 1)]


def setup(st, cur, c_sub, c_sta, tm):
    """Build manager + task (untraced), then impose the symbolic pre-state."""
    with concrete():
        mgr = fx.events_mgr2(CFG)
        itask = fx.itask(CFG, 'a', 2)
    status = ST[st]
    itask.state.status = status
    itask.submit_num = cur
    done = {'submitted': c_sub, 'started': c_sta}
    # outputs implied by the status itself
    if status in ('submitted', 'running', 'succeeded', 'failed'):
        done['submitted'] = True
    if status in ('running', 'succeeded', 'failed'):
        done['started'] = True
    if status in ('succeeded', 'failed', 'expired', 'submit-failed'):
        done[status] = True
    if done['started']:
        done['submitted'] = True
    for m, v in done.items():
        if v:
            itask.state.outputs.set_message_complete(m)
    en, sn = TIMERS[tm]
    if en is not None:
        itask.try_timers[TimerFlags.EXECUTION_RETRY] = TaskActionTimer(
            delays=[1.0, 1.0], num=en)
    if sn is not None:
        itask.try_timers[TimerFlags.SUBMISSION_RETRY] = TaskActionTimer(
            delays=[1.0], num=sn)
    return mgr, itask


def retry_lined_up(tm):
    en, sn = TIMERS[tm]
    return (en is not None and en > 0) or (sn is not None and sn > 0)


def snap(itask):
    return (
        itask.state.status,
        tuple(bool(itask.state.outputs._completed[m]) for m in OUT_MSGS),
        tuple(sorted((k, t.num) for k, t in itask.try_timers.items())),
        itask.submit_num,
        itask.state.is_queued, itask.state.is_held,
    )


def outputs_of(itask):
    return {m for m in OUT_MSGS if itask.state.outputs._completed[m]}


def invariant(itask):
    o = outputs_of(itask)
    if ('succeeded' in o or 'failed' in o) and not (
            'submitted' in o and 'started' in o):
        return False
    if 'started' in o and 'submitted' not in o:
        return False
    return True


PRE = """
    pre: sl(st=st, msg=msg, flag=flag)
    pre: 0 <= st < 8 and 0 <= msg < len(MSGS)
    pre: 1 <= cur <= 3 and 1 <= sub <= 3
    pre: 0 <= en <= 2 and 0 <= sn <= 1
"""

ET = '2020-01-01T00:00:00Z'

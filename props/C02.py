"""C02 — no task instance runs twice in a flow without intervention; retries
are bounded and the failure outputs wait for the last retry."""
import logging

from vf.api import Ob, sl, SLICE, concrete, fork_int
from vf import fx

import cylc.flow.task_action_timer as _tat
from cylc.flow.task_action_timer import TimerFlags
from cylc.flow.task_events_mgr import TaskEventsManager
from cylc.flow.task_job_mgr import TaskJobManager

META = dict(
    level='model_checking',
    text='Bounded symbolic execution of the job life cycle of one task '
         'instance through the real TaskEventsManager.process_message, '
         'TaskActionTimer.next and TaskJobManager._set_retry_timers: the '
         'outcome of every step (submission accepted / submission failed / '
         'started / failed / failed before the started message / a poll '
         'reporting that the submitted job never ran / succeeded / '
         'a duplicate or stale-job failure message injected at any point) is '
         'symbolic. z3 decides on every path that a task with N execution '
         'and M submission retry delays is submitted at most (N+1)(M+1) '
         'times, goes back to waiting with an unsatisfied retry xtrigger '
         'exactly while a retry remains, completes failed / submit-failed '
         '(and calls the spawn function for it, once) only when none remains, '
         'that duplicates and stale messages never consume a retry, and that '
         'nothing is resubmitted after a final status.',
    note='N, M in {(2,1) from the fixture, (0,0), (1,0), (0,2)}; up to 8 '
         '(thorough 9) life-cycle steps; resubmission of a waiting task '
         'with a retry lined up is played by the harness the way '
         'TaskJobManager.prep_submit_task_jobs does (status preparing, '
         'submit number + 1, _set_retry_timers); clock constant.',
    functions=['TaskEventsManager.process_message', '_process_message_check',
               '_process_message_failed', '_process_message_submit_failed',
               '_process_message_started', '_process_message_submitted',
               '_retry_task', 'TaskActionTimer.next / set_delays',
               'TaskJobManager._set_retry_timers', 'TaskState.reset'],
    bounds=['retry configurations (N, M): (2,1), (0,0), (1,0), (0,2)',
            'life cycle steps: 8 quick / 9 thorough, 4 outcomes per step'],
    stubs=['proc_pool, workflow_db_mgr, data_store_mgr, broadcast_mgr '
           '(recording stubs)', 'xtrigger manager (retry xtrigger creation '
           'recorded)', 'task_action_timer.time -> constant clock',
           'spawn function -> recorded'],
    assumptions=['job messages are delivered for the job that is current or '
                 'for an older submit number (stale)'],
    outside=['duplicate proxies via merging spawn paths (C26/C08)',
             'manual trigger / cylc set'],
)

CFG = fx.cfg('basic')
_tat.time = lambda: 1000.0
RETRY_CFGS = [(2, 1), (0, 0), (1, 0), (0, 2)]
ET = '2020-01-01T00:00:00Z'
RECV = TaskEventsManager.FLAG_RECEIVED
INTERNAL = TaskEventsManager.FLAG_INTERNAL


def _life(cfg_i, choices):
    N, M = RETRY_CFGS[cfg_i]
    mgr = fx.events_mgr2(CFG)
    itask = fx.itask(CFG, 'a', 2)
    rt = dict(itask.tdef.rtconfig)
    rt['execution retry delays'] = [1.0] * N
    rt['submission retry delays'] = [1.0] * M
    itask.platform = dict(itask.platform)
    itask.platform['submission retry delays'] = None
    submissions = 0
    exec_fail = 0          # genuine execution failures so far
    sub_fail = 0           # submission failures since the last start
    spawned = mgr.spawned
    out = itask.state.outputs

    def msg(m, flag=RECV, sn=None, sev=logging.INFO):
        return mgr.process_message(
            itask, sev, m, ET, flag,
            submit_num=itask.submit_num if sn is None else sn)

    def retry_pending():
        return any(not v for k, v in itask.state.xtriggers.items()
                   if k.startswith('_cylc'))

    for c in choices:
        st = itask.state.status
        if st == 'waiting':
            # (re)submission, as prep_submit_task_jobs does
            if submissions and not retry_pending():
                return False             # waiting again without a retry
            for k in list(itask.state.xtriggers):
                itask.state.xtriggers[k] = True     # retry time reached
            itask.submit_num += 1
            itask.state.status = 'preparing'
            TaskJobManager._set_retry_timers(itask, rt)
            submissions += 1
            if submissions > (N + 1) * (M + 1):
                return False
            continue
        if st == 'preparing':
            if c % 2 == 0:
                msg('submitted', INTERNAL)
                if itask.state.status != 'submitted':
                    return False
            else:
                msg('submission failed', INTERNAL, sev=logging.CRITICAL)
                sub_fail += 1
                if sub_fail <= M:
                    if (itask.state.status != 'waiting'
                            or not retry_pending()
                            or out.is_message_complete('submit-failed')
                            or any(o == 'submit-failed'
                                   for _i, o in spawned)):
                        return False
                else:
                    if (itask.state.status != 'submit-failed'
                            or not out.is_message_complete('submit-failed')
                            or [o for _i, o in spawned
                                if o == 'submit-failed'] != ['submit-failed']):
                        return False
            continue
        if st in ('submitted', 'running'):
            if c == 3:
                # stale failure from an older job + duplicate of the current
                # state's own message: must change nothing
                before = (itask.state.status, exec_fail, set(spawned),
                          itask.try_timers[TimerFlags.EXECUTION_RETRY].num)
                if itask.submit_num > 1:
                    msg('failed', RECV, sn=itask.submit_num - 1,
                        sev=logging.CRITICAL)
                msg('submitted' if st == 'submitted' else 'started', RECV)
                after = (itask.state.status, exec_fail, set(spawned),
                         itask.try_timers[TimerFlags.EXECUTION_RETRY].num)
                if before != after:
                    return False
                continue
            if st == 'submitted' and c == 0:
                msg('started')
                sub_fail = 0
                if itask.state.status != 'running':
                    return False
                if itask.try_timers[TimerFlags.SUBMISSION_RETRY].num != 0:
                    return False
                continue
            if st == 'running' and c == 0:
                msg('succeeded')
                if (itask.state.status != 'succeeded'
                        or (itask.identity, 'succeeded') not in spawned):
                    return False
                continue
            if st == 'submitted' and c == 2:
                # a poll finds that the submitted job never ran
                msg('submission failed', TaskEventsManager.FLAG_POLLED,
                    sev=logging.CRITICAL)
                sub_fail += 1
                nsf = [o for _i, o in spawned if o == 'submit-failed']
                if sub_fail <= M:
                    if (itask.state.status != 'waiting'
                            or not retry_pending()
                            or out.is_message_complete('submit-failed')
                            or nsf):
                        return False
                else:
                    if (itask.state.status != 'submit-failed'
                            or not out.is_message_complete('submit-failed')
                            or nsf != ['submit-failed']):
                        return False
                continue
            # c in (1, 2): the job fails (1: plain, 2: with a signal)
            msg('failed' if c == 1 else 'failed/TERM', sev=logging.CRITICAL)
            exec_fail += 1
            sub_fail = 0      # a job that failed did start (implied output)
            nfail = len([s for s in spawned if s[1] == 'failed'])
            if exec_fail <= N:
                if (itask.state.status != 'waiting' or not retry_pending()
                        or out.is_message_complete('failed') or nfail):
                    return False
                # a duplicate of the failure while the retry is lined up
                msg('failed', sev=logging.CRITICAL)
                if (itask.state.status != 'waiting' or itask.try_timers[
                        TimerFlags.EXECUTION_RETRY].num != exec_fail):
                    return False
            else:
                if (itask.state.status != 'failed'
                        or not out.is_message_complete('failed')
                        or nfail != 1):
                    return False
            continue
        # final status: nothing more happens by itself
        if st in ('succeeded', 'failed', 'submit-failed'):
            if retry_pending():
                return False
            break
    return submissions <= (N + 1) * (M + 1)


def life(cfg: int, c1: int, c2: int, c3: int, c4: int, c5: int, c6: int,
         c7: int, c8: int, c9: int, c10: int, c11: int) -> bool:
    """
    pre: sl(cfg=cfg, c2=c2, c3=c3)
    pre: 0 <= cfg < 4 and c1 == 0
    pre: 0 <= c2 <= 3 and 0 <= c3 <= 3 and 0 <= c4 <= 3 and 0 <= c5 <= 3
    pre: 0 <= c6 <= 3 and 0 <= c7 <= 3 and 0 <= c8 <= 3 and 0 <= c9 <= 3
    pre: 0 <= c10 <= 3 and 0 <= c11 <= 3
    post: _
    """
    n = SLICE.get('n', 8)
    cs = [c1, c2, c3, c4, c5, c6, c7, c8, c9, c10, c11]
    for c in cs[n:]:
        if c != 0:
            return True
    choices = [fork_int(c, 0, 3) for c in cs[:n]]
    cfg = fork_int(cfg, 0, 3)
    with concrete():
        return _life(cfg, choices)


def OBLIGATIONS(tier):
    big = tier == 'thorough'
    t = 1800 if big else 170
    obs = []
    for cfg in range(4):
        for c2 in range(4):
            for c3 in range(4):
                obs.append(Ob(f'life[cfg={RETRY_CFGS[cfg]},c2={c2},c3={c3}]',
                              'life', timeout=t,
                              twin=(c2 == 0 and c3 == 0),
                              slice={'cfg': cfg, 'c2': c2, 'c3': c3,
                                     'n': 9 if big else 8}))
    return obs


def VALIDATE():
    n = 0
    # literal life cycles (tests/integration/test_task_events_mgr.py style)
    assert _life(0, [0, 0, 0, 1, 0, 0, 0, 2, 0, 0, 0, 1, 0])   # 3 failures
    assert _life(0, [0, 1, 0, 1, 0])                           # 2 sub fails
    assert _life(1, [0, 0, 0, 1, 0])
    assert _life(3, [0, 1, 0, 1, 0, 1, 0])
    assert _life(0, [0, 0, 3, 0, 3, 0, 0])
    return n + 5

"""C30 — removing a task undoes exactly its effects."""
from types import SimpleNamespace as NS

from vf.api import Ob, sl, SLICE, concrete, fork_int, fork_bool, Stub
from vf import fx

from cylc.flow.commands import _remove_matched_tasks
from cylc.flow.id import Tokens

META = dict(
    level='model_checking',
    text='Bounded symbolic execution of the real commands._remove_matched_tasks '
         '(the body of `cylc remove`) with the real TaskPool.remove / '
         'unqueue_task, TaskProxy.match_flows and Prerequisite.'
         'unset_naturally_satisfied on a real pool: whether the removed '
         'instance is still pooled, its flows, the flows named in the command, '
         'and for two of its children their flows, status and how each '
         'prerequisite atom was satisfied (not / naturally / forced by cylc '
         'set) are symbolic. z3 decides on every path that exactly the named '
         'flows leave the instance (it leaves the pool iff none remain and is '
         'then killed), that its history is erased for those flows in the '
         'database rows, that only atoms it satisfied naturally are unset - '
         'forced ones and atoms fed by other tasks stay - that a child is '
         'removed exactly when it has begun nothing, belongs only to the '
         'removed flows and is left with no satisfied prerequisite, that the '
         'database history of a removed child is erased for exactly those '
         'flows (and of no other task at all), and that an unrelated task is '
         'untouched.',
    note='fixture "basic": removed a@2; children c@2 (a@2) and b@3 '
         '(a:x@3 | a@2); bystander b@2 (a:x@2 | a@1, only its a@1 atom '
         'satisfied); flows subsets of {1,2}; the DB side is the call '
         'remove_task_from_flows recorded by a stub (its SQL is outside).',
    functions=['commands._remove_matched_tasks', 'TaskPool.remove',
               'TaskPool.unqueue_task', 'TaskProxy.match_flows',
               'Prerequisite.unset_naturally_satisfied',
               'TaskState.any_satisfied_prerequisite_outputs',
               'generate_graph_children'],
    bounds=['parent pooled or not, flows {1}/{2}/{1,2}; command flows all / '
            '{1} / {2}', 'child c@2: atom unsatisfied / natural / forced, '
            'waiting or running, flows {1}/{2}/{1,2}', 'child b@3: a@2 atom x '
            '3 states, a:x@3 atom natural or not', 'fixture "remove2": child f@2 '
            'with three separate prerequisites on a@2 (x, succeeded, started), '
            'each atom in 3 states'],
    stubs=['scheduler stand-in (pool, config, data_store_mgr, kill_tasks '
           'recorded)', 'workflow_db_mgr.remove_task_from_flows -> recorded, '
           'returns the flows asked for'],
    assumptions=[],
    outside=['workflow_db_mgr.remove_task_from_flows SQL', 'job kill'],
)

CFG = fx.cfg('basic')
FLOWS = [{1}, {2}, {1, 2}]
SAT = [False, 'satisfied naturally', 'force satisfied']


def _run(parent_in, pf, rm, c_sat, c_run, cf, b_a2, b_x3, bf):
    pool = fx.pool(CFG)
    db = pool.workflow_db_mgr
    removed_rows = []

    def remove_task_from_flows(cycle, name, fnums):
        removed_rows.append((str(cycle), name, set(fnums)))
        return set(fnums) or {1, 2}
    db.__dict__['remove_task_from_flows'] = remove_task_from_flows
    killed = []
    schd = NS(pool=pool, config=CFG, workflow_db_mgr=db,
              data_store_mgr=pool.data_store_mgr,
              kill_tasks=lambda ts, warn=True: killed.extend(ts))
    a = fx.itask(CFG, 'a', 2, flows=FLOWS[pf])
    c = fx.itask(CFG, 'c', 2, flows=FLOWS[cf])
    b3 = fx.itask(CFG, 'b', 3, flows=FLOWS[bf])
    b2 = fx.itask(CFG, 'b', 2, flows={1, 2})          # bystander
    for t in (c, b3, b2):
        t.state.is_runahead = False
        pool.add_to_pool(t)
    if parent_in:
        pool.add_to_pool(a)

    def setatom(task, key, val):
        for pre in task.state.prerequisites:
            for k in list(pre._satisfied):
                if (k.point, k.task, k.output) == key:
                    pre[k] = val
    setatom(c, ('2', 'a', 'succeeded'), SAT[c_sat])
    setatom(b3, ('2', 'a', 'succeeded'), SAT[b_a2])
    setatom(b3, ('3', 'a', 'xx'), 'satisfied naturally' if b_x3 else False)
    setatom(b2, ('1', 'a', 'succeeded'), 'satisfied naturally')
    if c_run:
        c.state.status = 'running'
    for t in (c, b3, b2):
        if t.state.status == 'waiting' and t.is_ready_to_run():
            pool.queue_task(t)
    rmflows = [set(), {1}, {2}][rm]
    b2_before = ([dict(p._satisfied) for p in b2.state.prerequisites],
                 set(b2.flow_nums), b2.state.is_queued)

    _remove_matched_tasks(
        schd, {Tokens(cycle='2', task='a').task}, set(rmflows))

    def match(flows):
        return set(flows) if not rmflows else set(flows) & rmflows
    # --- the removed instance
    pm = match(FLOWS[pf])
    if parent_in:
        left = FLOWS[pf] - pm
        if a.flow_nums != left:
            return False
        inpool = any(t is a for t in pool.get_tasks())
        if pm and inpool != bool(left):
            return False
        if not pm and not inpool:
            return False
        if (a in killed) != (bool(pm) and not left):
            return False
    skipped = parent_in and not pm
    # (a pooled instance that is in none of the named flows: the command
    # reports it as not removed and does nothing at all)
    if skipped:
        if removed_rows or killed:
            return False
    elif ('2', 'a', set(rmflows)) not in removed_rows:
        return False          # history erased for the named flows
    # --- children
    for child, key, s0, f0, running in (
            (c, ('2', 'a', 'succeeded'), SAT[c_sat], FLOWS[cf], c_run),
            (b3, ('2', 'a', 'succeeded'), SAT[b_a2], FLOWS[bf], False)):
        cm = match(f0)
        now = [v for pre in child.state.prerequisites
               for k, v in pre._satisfied.items()
               if (k.point, k.task, k.output) == key][0]
        unset = (bool(cm) and s0 == 'satisfied naturally'
                 and not skipped)
        if now != (False if unset else s0):
            return False
        other_sat = (child is b3 and b_x3)
        should_go = (unset and not running and f0 == cm and not other_sat
                     and not child.state.prerequisites_all_satisfied())
        gone = not any(t is child for t in pool.get_tasks())
        if gone != should_go:
            return False
        # database history: a removed child is erased from exactly the
        # flows its pooled instance was removed from - never from others
        crows = [r for r in removed_rows
                 if (r[0], r[1]) == (str(child.point), child.tdef.name)]
        if gone:
            if crows != [(str(child.point), child.tdef.name, set(cm))]:
                return False
        elif crows:
            return False
        if unset and not running and f0 == cm and not gone and (
                not child.state.prerequisites_all_satisfied()
                and child.state.is_queued):
            return False              # no longer ready: must leave the queue
        if child.flow_nums != f0:
            return False
    # b3's other atom never touched
    x3 = [v for pre in b3.state.prerequisites
          for k, v in pre._satisfied.items() if k.output == 'xx'][0]
    if bool(x3) != b_x3:
        return False
    # --- bystander untouched
    b2_after = ([dict(p._satisfied) for p in b2.state.prerequisites],
                set(b2.flow_nums), b2.state.is_queued)
    return b2_after == b2_before and any(
        t is b2 for t in pool.get_tasks())


CFG2 = fx.cfg('remove2')


def _multi(s_x, s_suc, s_sta, parent_in):
    """A child with three separate prerequisites on the removed task."""
    pool = fx.pool(CFG2)
    db = pool.workflow_db_mgr
    db.__dict__['remove_task_from_flows'] = (
        lambda cycle, name, fnums: set(fnums) or {1})
    schd = NS(pool=pool, config=CFG2, workflow_db_mgr=db,
              data_store_mgr=pool.data_store_mgr,
              kill_tasks=lambda ts, warn=True: None)
    a = fx.itask(CFG2, 'a', 2)
    f = fx.itask(CFG2, 'f', 2)
    f.state.is_runahead = False
    pool.add_to_pool(f)
    if parent_in:
        pool.add_to_pool(a)
    states = {'xx': SAT[s_x], 'succeeded': SAT[s_suc], 'started': SAT[s_sta]}
    for pre in f.state.prerequisites:
        for k in list(pre._satisfied):
            pre[k] = states[k.output]
    _remove_matched_tasks(schd, {Tokens(cycle='2', task='a').task}, set())
    now = {k.output: v for pre in f.state.prerequisites
           for k, v in pre._satisfied.items()}
    for out, s0 in states.items():
        want = False if s0 == 'satisfied naturally' else s0
        if now[out] != want:
            return False
    changed = 'satisfied naturally' in states.values()
    left = any(v == 'force satisfied' for v in states.values())
    gone = not any(t is f for t in pool.get_tasks())
    return gone == (changed and not left)


def multi(s_x: int, s_suc: int, s_sta: int, parent_in: bool) -> bool:
    """
    pre: 0 <= s_x < 3 and 0 <= s_suc < 3 and 0 <= s_sta < 3
    post: _
    """
    s_x, s_suc, s_sta = (fork_int(s_x, 0, 2), fork_int(s_suc, 0, 2),
                         fork_int(s_sta, 0, 2))
    parent_in = fork_bool(parent_in)
    with concrete():
        return _multi(s_x, s_suc, s_sta, parent_in)


def remove(parent_in: bool, pf: int, rm: int, c_sat: int, c_run: bool,
           cf: int, b_a2: int, b_x3: bool, bf: int) -> bool:
    """
    pre: sl(pf=pf, rm=rm)
    pre: 0 <= pf < 3 and 0 <= rm < 3 and 0 <= c_sat < 3 and 0 <= cf < 3
    pre: 0 <= b_a2 < 3 and 0 <= bf < 3
    post: _
    """
    pf, rm, c_sat, cf = (fork_int(pf, 0, 2), fork_int(rm, 0, 2),
                         fork_int(c_sat, 0, 2), fork_int(cf, 0, 2))
    b_a2, bf = fork_int(b_a2, 0, 2), fork_int(bf, 0, 2)
    parent_in, c_run, b_x3 = (fork_bool(parent_in), fork_bool(c_run),
                              fork_bool(b_x3))
    with concrete():
        return _run(parent_in, pf, rm, c_sat, c_run, cf, b_a2, b_x3, bf)


def OBLIGATIONS(tier):
    big = tier == 'thorough'
    t = 1200 if big else 160
    return [Ob(f'remove[pf={pf},rm={rm}]', 'remove', timeout=t,
               slice={'pf': pf, 'rm': rm}) for pf in range(3)
            for rm in range(3)] + [Ob('multi', 'multi', timeout=t)]


def VALIDATE():
    n = 0
    # tests/integration/test_remove.py style literals
    assert _run(True, 0, 0, 1, False, 0, 1, False, 0)
    assert _run(True, 2, 1, 1, False, 0, 2, True, 2)
    assert _run(False, 0, 0, 2, True, 1, 0, False, 0)
    assert _multi(1, 1, 1, True) and _multi(1, 2, 0, False)
    return n + 5

"""C17 — datetime recurrences agree with brute-force enumeration."""
from vf.api import Ob, sl, SLICE, concrete, fork_int, fork_bool, kf

from props import _dt

from cylc.flow.exceptions import CylcMissingFinalCyclePointError
from cylc.flow.cycling.iso8601 import (
    ISO8601Interval, ISO8601Point, ISO8601Sequence, point_parse)

META = dict(
    level='model_checking',
    technique='bounded symbolic execution (CrossHair + z3) over symbolic '
              'indices choosing the recurrence text, the context points, the '
              'calendar pair and the query order (the solver certifies that '
              'every combination in the bounded family was generated); the '
              'real ISO8601Sequence runs on each and is compared with the '
              'list obtained by iterating the recurrence',
    text='Recurrence expressions (all abbreviated and full forms Cylc '
         'documents: PT6H, P1D, P1M, T00, T06, +PT6H/PT12H, R1, R1/$, '
         'R1/+P1D, R3/PT6H, Rn/start/interval, interval/end, and the same '
         'with exclusion points, exclusion lists and exclusion sequences) '
         'are parsed by the real ISO8601Sequence with context start / end '
         'points drawn from month-end and leap-day dates under each calendar; '
         'the oracle is the ordered list obtained by iterating the parsed '
         'recurrence over a window and removing the points the exclusions '
         'name (exclusion sequences are iterated the same way). For query '
         'points on, between, before and after the listed points z3 decides '
         'on every path that is_on_sequence / is_valid, get_next_point, '
         'get_next_point_on_sequence, get_prev_point, '
         'get_nearest_prev_point, get_first_point, get_start_point and '
         'get_stop_point return what the list says, and that a second '
         'sequence object queried in the reverse order - after the same '
         'expression was used under another calendar in the same process - '
         'gives identical answers (caches are transparent).',
    note='point / recurrence strings reach metomi.isodatetime parsers (string '
         'code): texts are concrete, chosen by symbolic indices. The '
         'iteration of the parsed recurrence (metomi TimeRecurrence.__iter__) '
         'is the oracle the property names; it is trusted.',
    functions=['ISO8601Sequence.__init__', '_is_on_sequence', 'is_valid',
               'get_next_point', 'get_next_point_on_sequence',
               'get_prev_point', 'get_nearest_prev_point', 'get_first_point',
               'get_start_point', 'get_stop_point', '_check_and_cache_next_'
               'point', 'ISO8601Exclusions.build_exclusions / __contains__',
               'CylcTimeParser.parse_recurrence'],
    bounds=['26 recurrence texts x 3 initial points x final point none / '
            '+P4D / +P40D x 4 calendars (each followed by each other); query '
            'points: every listed point and the points 1 hour before and '
            'after it inside a 4-day (quick; the first 8 and last 2 listed '
            'points; gregorian and 360day each followed by one other '
            'calendar; final point none / +P4D) window (thorough: every calendar followed by two '
            'others, final point also +P40D; a 12-day window with all '
            'points did not finish in 14 minutes), two query orders'],
    stubs=['none'],
    assumptions=['queries at or after the recurrence start for '
                 'get_next_point_on_sequence / get_prev_point on listed '
                 'points (their documented precondition)'],
    outside=['time zones other than Z for the workflow', 'expanded years',
             'week-date and ordinal-date forms'],
)

RECS = [
    'PT6H', 'PT12H', 'P1D', 'P1M', 'T00', 'T06', '+PT6H/PT12H', 'R1', 'R1/$',
    'R1/+P1D', 'R3/PT6H', 'R3/P1D', 'R2/+P1D/P1D', 'P1D/+P3D',
    'PT6H!T00', 'PT6H!(T00,T12)', 'PT6H!^', 'PT6H!$', 'PT6H!PT12H',
    'P1D!P2D', 'T00!^', 'PT6H!(^,^+PT6H)', 'R3/PT6H!^', 'R3/PT6H!^+PT12H',
    'PT6H!+PT6H/P1D', 'R4/PT6H!(^+PT12H,^+PT18H)',
]
ICPS = [(2000, 2, 28, 0), (1999, 12, 30, 6), (2020, 2, 27, 18)]
ENDS = [None, 'P4D', 'P40D']
WINDOW_H = 4 * 24


def P(s):
    return ISO8601Point(s).standardise()


def listed(seq, lo, hi):
    """Iterate the parsed recurrence; drop what the exclusions name."""
    out = []
    n = 0
    for tp in seq.recurrence:
        n += 1
        p = P(str(tp))
        if p > hi or n > 4000:
            break
        if p >= lo:
            out.append(p)
    excl_pts, excl_seqs = [], []
    if seq.exclusions:
        excl_pts = list(seq.exclusions.exclusion_points)
        excl_seqs = list(seq.exclusions.exclusion_sequences)
    banned = set(x.value for x in excl_pts if x is not None)
    for es in excl_seqs:
        n = 0
        for tp in es.recurrence:
            n += 1
            p = P(str(tp))
            if p > hi or n > 4000:
                break
            banned.add(p.value)
    return sorted(p for p in set(out) if p.value not in banned)


def answers(seq, queries, L, order):
    """All query answers of one sequence object as a dictionary."""
    got = {}
    Lset = {p.value for p in L}
    qs = list(queries) if order == 0 else list(reversed(queries))
    for x in qs:
        ops = ['on', 'valid', 'next', 'first', 'nprev']
        if x.value in Lset:
            ops += ['next_on', 'prev']
        if order:
            ops.reverse()
        for op in ops:
            if op == 'on':
                r = seq.is_on_sequence(x)
            elif op == 'valid':
                r = seq.is_valid(x)
            elif op == 'next':
                r = seq.get_next_point(x)
            elif op == 'first':
                r = seq.get_first_point(x)
            elif op == 'nprev':
                r = seq.get_nearest_prev_point(x)
            elif op == 'next_on':
                r = seq.get_next_point_on_sequence(x)
            else:
                r = seq.get_prev_point(x)
            got[(x.value, op)] = (
                r if isinstance(r, bool) or r is None
                else ISO8601Point(r.value).standardise().value)
    for name, r in (('start', seq.get_start_point()),
                    ('stop', seq.get_stop_point())):
        got[name] = None if r is None else (
            ISO8601Point(r.value).standardise().value)
    return got


def _check(ri, ii, ei, cal, big):
    _dt.set_calendar(cal)
    y, m, d, h = ICPS[ii]
    if d > _dt.dim(cal, y, m):
        return True
    icp = P(f'{y:04d}{m:02d}{d:02d}T{h:02d}00Z')
    fcp = None if ENDS[ei] is None else icp + ISO8601Interval(ENDS[ei])
    hours = WINDOW_H
    if 'P1M' in RECS[ri]:
        hours = 100 * 24
    hi = icp + ISO8601Interval(f'PT{hours}H')
    if fcp is not None and fcp + ISO8601Interval('P6D') > hi:
        hi = fcp + ISO8601Interval('P6D')
    lo = icp - ISO8601Interval('P2D')
    # WorkflowConfig substitutes ^ and $ in the section heading
    rec = RECS[ri].replace('^', icp.value)
    if '$' in rec:
        if fcp is None:
            return True               # (rejected by the configuration)
        rec = rec.replace('$', fcp.value)
    try:
        seq = ISO8601Sequence(rec, icp, fcp)
    except (CylcMissingFinalCyclePointError, TypeError):
        # counting back from a final point that was not given: rejected
        # (P1D/+P3D fails with a TypeError rather than the proper error)
        return fcp is None
    L = listed(seq, lo, hi)
    bounded = seq.get_stop_point() is not None
    # queries stay a day inside the window so that the successor is listed
    qhi = hi - ISO8601Interval(
        'P35D' if 'P1M' in RECS[ri] else 'P2D') if not bounded else hi
    queries = []
    one = ISO8601Interval('PT1H')
    for i, p in enumerate(L):
        if i > 7 and i < len(L) - 2:
            continue                  # (quick: both ends of long lists)
        for x in (p - one, p, p + one):
            if lo <= x <= qhi and x not in queries:
                queries.append(x)
    for x in (icp - one, icp, icp + one):
        if x not in queries:
            queries.append(x)
    queries.sort()
    Lq = L
    vals = [p.value for p in Lq]

    def after(x, strict=True):
        for p in Lq:
            if (p > x) if strict else (p >= x):
                return p.value
        return None

    def before(x):
        r = None
        for p in Lq:
            if p < x:
                r = p.value
        return r
    want = {}
    for x in queries:
        on = x.value in vals
        want[(x.value, 'on')] = on
        want[(x.value, 'valid')] = on
        want[(x.value, 'next')] = after(x)
        want[(x.value, 'first')] = after(x, strict=False)
        want[(x.value, 'nprev')] = before(x)
        if on:
            want[(x.value, 'next_on')] = after(x)
            want[(x.value, 'prev')] = before(x)
    want['start'] = vals[0] if vals else None
    want['stop'] = (vals[-1] if vals else None) if bounded else None
    a = answers(seq, queries, L, 0)
    # the same object asked everything again, in the other order: answers
    # must not depend on what was asked before
    a2 = answers(seq, queries, L, 1)
    if a2 != a:
        return False
    b = answers(ISO8601Sequence(rec, icp, fcp), queries, L, 1)
    if not bounded:
        # (the start of an unbounded sequence may precede the window's
        # lower edge only if it precedes the initial point: it cannot)
        pass
    for k, w in want.items():
        if k == 'start' and not vals:
            continue
        if a.get(k) != w or b.get(k) != w:
            return False
    return True


def _run(ri, ii, ei, c1, big=False):
    for c2 in ([(c1 + 1) % 4, (c1 + 2) % 4] if big else [(c1 + 1) % 4]):
        for cal in (_dt.CALS[c1], _dt.CALS[c2]):
            if not _check(ri, ii, ei, cal, big):
                return False
    return True


def recurrence(ri: int, ii: int, ei: int, c1: int) -> bool:
    """
    pre: sl(ri=ri)
    pre: 0 <= ri < len(RECS) and 0 <= ii < 3 and 0 <= ei < 3 and 0 <= c1 < 4
    pre: not kf('C17.recurrence', ri=ri, ii=ii, ei=ei, c1=c1)
    pre: SLICE.get('big', False) or (ei <= 1 and c1 <= 1)
    post: _
    """
    ri, ii, ei, c1 = (fork_int(ri, 0, len(RECS) - 1), fork_int(ii, 0, 2),
                      fork_int(ei, 0, 2), fork_int(c1, 0, 3))
    with concrete():
        return _run(ri, ii, ei, c1, SLICE.get('big', False))


def OBLIGATIONS(tier):
    big = tier == 'thorough'
    t = 2400 if big else 170
    return [Ob(f'recurrence[{RECS[r]}]', 'recurrence', timeout=t,
               twin=(r == 0), slice={'ri': r, 'big': big})
            for r in range(len(RECS))]


def VALIDATE():
    n = 0
    _dt.set_calendar('gregorian')
    # tests/unit/cycling/test_iso8601.py style literals
    seq = ISO8601Sequence('R5/PT6H', P('20000101T0000Z'), P('20000102T0000Z'))
    L = listed(seq, P('19991231T0000Z'), P('20000103T0000Z'))
    assert [p.value for p in L] == [
        '20000101T0000Z', '20000101T0600Z', '20000101T1200Z',
        '20000101T1800Z', '20000102T0000Z'], L
    seq = ISO8601Sequence('R5/PT6H!T00', P('20000101T0000Z'),
                          P('20000102T0000Z'))
    L = listed(seq, P('19991231T0000Z'), P('20000103T0000Z'))
    assert [p.value for p in L] == [
        '20000101T0600Z', '20000101T1200Z', '20000101T1800Z'], L
    # every expression is accepted under at least one context
    for ri in range(len(RECS)):
        ok = False
        for ei in range(3):
            icp = P('20000228T0000Z')
            fcp = None if ENDS[ei] is None else icp + ISO8601Interval(
                ENDS[ei])
            if '$' in RECS[ri] and fcp is None:
                continue
            try:
                ISO8601Sequence(RECS[ri].replace('^', icp.value).replace(
                    '$', fcp.value if fcp else ''), icp, fcp)
                ok = True
            except (CylcMissingFinalCyclePointError, TypeError):
                assert fcp is None
        assert ok, RECS[ri]
        n += 1
    return n + 2

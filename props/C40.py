"""C40 — workflow-state queries match exactly what was recorded."""
import itertools
import re
import sqlite3

from vf.api import Ob, sl, SLICE, fork_int, kf

from cylc.flow.dbstatecheck import CylcWorkflowDBChecker
from cylc.flow.util import serialise_set

META = dict(
    level='model_checking',
    text='Bounded symbolic execution of the real CylcWorkflowDBChecker.'
         'workflow_state_query with symbolic task-name pattern, cycle '
         'pattern and recorded task names (strings over an alphabet with '
         'underscore, percent, mixed case, *, ?, [), symbolic flow sets and '
         'flow filter; the SQL statement the real code generates is '
         'interpreted by a model of SQLite LIKE / GLOB / == (validated '
         'against real sqlite on every run) and z3 decides, per path, that '
         'the rows returned are exactly those matched by the documented glob '
         '(only * special, case-sensitive) and kept by the flow filter.',
    note='strings of length 1..3 over {a, A, b, _, %, *, ?, [}; two recorded '
         'rows; statuses / outputs selector concrete; sqlite itself replaced '
         'by the validated matching model (statements outside the modelled '
         'subset make the check inconclusive/harness-error, never held).',
    functions=['CylcWorkflowDBChecker.workflow_state_query',
               '_selector_in_outputs', 'check_polling_config',
               'deserialise_set', 'repr_flow_nums'],
    bounds=['task pattern, cycle pattern, two recorded names: symbolic '
            'strings: pattern length 1..2, names 1..2 (thorough 1..3), '
            'alphabet {a,A,b,_,%,*,?,[}', 'flow sets subsets of {1,2}, filter '
            'None/1/2/3', 'output queries: selector in {None, x, finished, '
            'finish, the x, e, fin} (the last three with flow set {1} only), '
            'recorded outputs 4 shapes'],
    stubs=['sqlite connection -> in-memory row list + model of the WHERE '
           'clause (== / LIKE [ESCAPE] / GLOB), validated against real '
           'sqlite for all strings of length <= 2 over the alphabet'],
    assumptions=['Cylc 8 database layout (not Cylc 7 back-compat)'],
    outside=['adjust_point_to_db (datetime formats)', 'CLI option parsing'],
)

ALPH = 'aAb_%*?['


# --- models of SQLite pattern matching -----------------------------------
def like_match(pat, s, esc=None, i=0, j=0):
    """SQLite LIKE (default: ASCII case-insensitive)."""
    while i < len(pat):
        c = pat[i]
        if esc is not None and c == esc:
            if i + 1 >= len(pat):
                return False
            lit = pat[i + 1]
            if j >= len(s) or s[j].lower() != lit.lower():
                return False
            i += 2
            j += 1
            continue
        if c == '%':
            for k in range(j, len(s) + 1):
                if like_match(pat, s, esc, i + 1, k):
                    return True
            return False
        if j >= len(s):
            return False
        if c != '_' and c.lower() != s[j].lower():
            return False
        i += 1
        j += 1
    return j == len(s)


def glob_match(pat, s, i=0, j=0):
    """SQLite GLOB: * ? [set] (case-sensitive)."""
    while i < len(pat):
        c = pat[i]
        if c == '*':
            for k in range(j, len(s) + 1):
                if glob_match(pat, s, i + 1, k):
                    return True
            return False
        if j >= len(s):
            return False
        if c == '?':
            i += 1
            j += 1
            continue
        if c == '[':
            k = i + 1
            neg = False
            if k < len(pat) and pat[k] == '^':
                neg = True
                k += 1
            members = []
            first = True
            while k < len(pat) and (pat[k] != ']' or first):
                if (k + 2 < len(pat) and pat[k + 1] == '-'
                        and pat[k + 2] != ']'):
                    members.append((pat[k], pat[k + 2]))
                    k += 3
                else:
                    members.append((pat[k], pat[k]))
                    k += 1
                first = False
            if k >= len(pat):
                return False        # unterminated set never matches
            hit = any(lo <= s[j] <= hi for lo, hi in members)
            if hit == neg:
                return False
            i = k + 1
            j += 1
            continue
        if c != s[j]:
            return False
        i += 1
        j += 1
    return j == len(s)


def spec_match(pat, s, i=0, j=0):
    """The documented semantics: only '*' is special, case-sensitive."""
    while i < len(pat):
        c = pat[i]
        if c == '*':
            for k in range(j, len(s) + 1):
                if spec_match(pat, s, i + 1, k):
                    return True
            return False
        if j >= len(s) or c != s[j]:
            return False
        i += 1
        j += 1
    return j == len(s)


COND = re.compile(
    r"^\s*(name|cycle|status)\s*(==|=|like|glob)\s*\?"
    r"(?:\s+escape\s+'(.)')?\s*$", re.I)


class ConnModel:
    """Evaluates the statement built by workflow_state_query on rows."""

    def __init__(self, rows):
        self.rows = rows      # dicts: name, cycle, status, outputs, flow_nums
        self.stmts = []

    def execute(self, stmt, args=()):
        self.stmts.append(stmt)
        m = re.search(r'SELECT\s+(.*?)\s+FROM\s+(\w+)(.*)$', stmt, re.S)
        if not m:
            raise RuntimeError(f'unmodelled statement: {stmt!r}')
        cols = [c.strip() for c in m.group(1).split(',')]
        rest = m.group(3)
        rest = re.sub(r'ORDER BY submit_num\s*$', '', rest.strip())
        conds = []
        if rest.strip():
            w = re.match(r'^\s*WHERE\s+(.*)$', rest.strip(), re.S)
            if not w:
                raise RuntimeError(f'unmodelled statement: {stmt!r}')
            parts = re.split(r'\s+AND\s+', w.group(1).strip())
            if len(parts) != len(args):
                raise RuntimeError(f'unmodelled statement: {stmt!r}')
            for part, arg in zip(parts, args):
                c = COND.match(part)
                if not c:
                    raise RuntimeError(f'unmodelled condition: {part!r}')
                conds.append((c.group(1).lower(), c.group(2).lower(),
                              c.group(3), arg))
        out = []
        for row in self.rows:
            ok = True
            for col, op, esc, arg in conds:
                val = row[col]
                if op in ('==', '='):
                    hit = val == arg
                elif op == 'like':
                    hit = like_match(arg, val, esc)
                else:
                    hit = glob_match(arg, val)
                if not hit:
                    ok = False
                    break
            if ok:
                out.append(tuple(row[c] for c in cols))
        return out


def checker(rows):
    chk = object.__new__(CylcWorkflowDBChecker)
    chk.conn = ConnModel(rows)
    chk.c7_back_compat_mode = False
    chk.db_point_fmt = None
    return chk


def _in_alph(s, lo, hi):
    return lo <= len(s) <= hi and all(c in ALPH for c in s)


def name_query(pat: str, n1: str, n2: str) -> bool:
    """
    pre: _in_alph(pat, 1, SLICE['plen']) and _in_alph(n1, 1, SLICE['nlen'])
    pre: _in_alph(n2, 1, SLICE['nlen'])
    pre: len(pat) == SLICE['plen']
    pre: not kf('name_query', pat=pat, n1=n1, n2=n2)
    post: _
    """
    rows = [dict(name=n1, cycle='1', status='succeeded', flow_nums='[1]'),
            dict(name=n2, cycle='2', status='succeeded', flow_nums='[1]')]
    res = checker(rows).workflow_state_query(task=pat, selector='succeeded')
    got = [(r[0], r[1]) for r in res]
    want = [(r['name'], r['cycle']) for r in rows
            if spec_match(pat, r['name'])]
    return got == want


def cycle_query(pat: str, c1: str, c2: str) -> bool:
    """
    pre: _in_alph(pat, 1, SLICE['plen']) and _in_alph(c1, 1, SLICE['nlen'])
    pre: _in_alph(c2, 1, SLICE['nlen'])
    pre: len(pat) == SLICE['plen']
    pre: not kf('cycle_query', pat=pat, c1=c1, c2=c2)
    post: _
    """
    rows = [dict(name='foo', cycle=c1, status='succeeded', flow_nums='[1]'),
            dict(name='bar', cycle=c2, status='failed', flow_nums='[1]')]
    res = checker(rows).workflow_state_query(cycle=pat)
    got = [(r[0], r[1]) for r in res]
    want = [(r['name'], r['cycle']) for r in rows
            if spec_match(pat, r['cycle'])]
    return got == want


FLOWSETS = [set(), {1}, {2}, {1, 2}]
OUTS = ['{"submitted": "submitted", "started": "started", "x": "the x"}',
        '{"submitted": "submitted", "started": "started", '
        '"succeeded": "succeeded"}',
        '["submitted", "started", "failed", "the x"]',
        # custom outputs whose names are fragments of "finished"
        '{"submitted": "submitted", "started": "started", "e": "msg e", '
        '"failed": "failed"}']
SELECTORS = [None, 'x', 'finished', 'the x', 'finish', 'e', 'fin']


def flow_query(f1: int, f2: int, want_flow: int, o1: int, o2: int,
               sel: int, by_msg: bool) -> bool:
    """
    pre: sl(sel=sel, by_msg=by_msg)
    pre: 0 <= f1 < 4 and 0 <= f2 < 4 and 0 <= want_flow <= 3
    pre: 0 <= o1 < 4 and 0 <= o2 < 4 and 0 <= sel < 7
    pre: sel < 4 or (f1 == 1 and f2 == 1 and want_flow <= 1)
    post: _
    """
    f1, f2 = fork_int(f1, 0, 3), fork_int(f2, 0, 3)
    o1, o2 = fork_int(o1, 0, 3), fork_int(o2, 0, 3)
    sel = fork_int(sel, 0, 6)
    wf = fork_int(want_flow, 0, 3)
    by_msg = True if by_msg else False
    rows = [dict(name='foo', cycle='1', outputs=OUTS[o1], status='running',
                 flow_nums=serialise_set(FLOWSETS[f1])),
            dict(name='foo', cycle='2', outputs=OUTS[o2], status='running',
                 flow_nums=serialise_set(FLOWSETS[f2]))]
    selector = SELECTORS[sel]
    res = checker(rows).workflow_state_query(
        task='foo', selector=selector, is_trigger=not by_msg,
        is_message=by_msg, flow_num=(wf or None))
    got = [r[1] for r in res]
    import json
    want = []
    for row, fs in zip(rows, (FLOWSETS[f1], FLOWSETS[f2])):
        if wf and wf not in fs:
            continue
        outs = json.loads(row['outputs'])
        msgs = list(outs.values()) if isinstance(outs, dict) else outs
        trigs = list(outs) if isinstance(outs, dict) else outs
        if selector is None:
            hit = True
        elif by_msg:
            hit = selector in msgs
        elif selector in ('finished', 'finish'):
            hit = 'succeeded' in trigs or 'failed' in trigs
        else:
            hit = selector in trigs
        if hit:
            want.append(row['cycle'])
    return got == want


def OBLIGATIONS(tier):
    big = tier == 'thorough'
    t = 1500 if big else 170
    obs = []
    for plen in (1, 2):
        # (patterns of length 3 did not finish within the budget; thorough
        # deepens the recorded names instead)
        sl_ = {'plen': plen, 'nlen': 3 if big else 2}
        obs.append(Ob(f'name_query[plen={plen}]', 'name_query', timeout=t,
                      slice=dict(sl_)))
        obs.append(Ob(f'cycle_query[plen={plen}]', 'cycle_query', timeout=t,
                      slice=dict(sl_)))
    for sel in range(7):
        for by_msg in (False, True):
            obs.append(Ob(f'flow_query[sel={sel},msg={by_msg}]', 'flow_query',
                          timeout=t, slice={'sel': sel, 'by_msg': by_msg}))
    return obs


def VALIDATE():
    """LIKE / GLOB models against real sqlite, all strings of length <= 2
    over the alphabet (and a few escapes); oracle literals."""
    conn = sqlite3.connect(':memory:')
    strs = [''.join(p) for k in (1, 2) for p in itertools.product(
        ALPH, repeat=k)]
    n = 0
    for pat in strs:
        for s in strs:
            a = conn.execute('select ? like ?', (s, pat)).fetchone()[0]
            assert bool(a) == like_match(pat, s), ('like', pat, s)
            b = conn.execute('select ? glob ?', (s, pat)).fetchone()[0]
            assert bool(b) == glob_match(pat, s), ('glob', pat, s)
            n += 2
    for pat, s in (('[[]a', '[a'), ('[?]', '?'), ('[?]', 'a'), ('a[*]', 'a*'),
                   ('[^a]b', 'bb'), ('[a-b]', 'b'), ('[]]', ']'), ('[a', '[a'),
                   ('*[[]*', 'x[y'), ('[a-', 'a')):
        b = conn.execute('select ? glob ?', (s, pat)).fetchone()[0]
        assert bool(b) == glob_match(pat, s), ('glob', pat, s)
        n += 1
    for pat, s in ((r'a\_b', 'a_b'), (r'a\_b', 'aXb'), (r'a\%', 'a%'),
                   (r'\\', '\\'), (r'a\%%', 'a%zz')):
        a = conn.execute("select ? like ? escape '\\'", (s, pat)).fetchone()[0]
        assert bool(a) == like_match(pat, s, '\\'), ('esc', pat, s)
        n += 1
    SLICE.update(plen=2, nlen=2)
    assert name_query('a*', 'ab', 'ba') and name_query('ab', 'ab', 'b')
    assert cycle_query('*', 'a', 'b')
    assert flow_query(1, 3, 2, 0, 1, 2, False)
    SLICE.clear()
    return n + 4

"""C35 — runtime inheritance follows C3 linearization."""
import itertools

from vf.api import Ob, sl, SLICE, fork_int

from cylc.flow.c3mro import C3

META = dict(
    level='model_checking',
    technique='bounded symbolic execution (CrossHair + z3) of the real '
              'C3.mro/merge over symbolic ordered-parent choices; finite '
              'domain - the solver certifies that every inheritance DAG in '
              'the bound was explored; oracle = Python\'s own MRO',
    text='The real C3.mro / C3.merge are executed on every inheritance DAG '
         'over root + 4 (thorough 5) namespaces whose ordered parent lists '
         '(1..3 parents each, 1..2 for root + 5, drawn from earlier namespaces) '
         'are selected by symbolic integers; for each namespace the result '
         'must equal the MRO Python computes for the equivalent class '
         'hierarchy, and an exception must be raised exactly when Python '
         'refuses to create the class.',
    note='finite-domain inputs: the solver only certifies exhaustion of the '
         'shape space (evidence lists the count); hierarchies are acyclic by '
         'construction (cycles are rejected earlier, by RecursionError in '
         'WorkflowConfig); the config code that builds the parents map '
         '(first-parent demotion etc.) is outside.',
    functions=['C3.mro', 'C3.merge'],
    bounds=['namespaces: root + 4 (quick) / root + 5 (thorough)',
            'ordered parent lists of length 1..3 (root + 4: 2400 DAGs) / '
            '1..2 (root + 5: 14400 DAGs) over earlier namespaces'],
    stubs=['none'],
    assumptions=['every namespace other than root has at least one parent '
                 '(WorkflowConfig adds root)'],
    outside=['WorkflowConfig.compute_family_tree parent-list preparation',
             'compute_inheritance (dictionary merging along the MRO)'],
)

NAMES = ['root', 'A', 'B', 'C', 'D', 'E']


def choices(i, maxp):
    out = []
    for k in range(1, maxp + 1):
        out.extend(itertools.permutations(range(i), k))
    return out


def py_mro(tree, names):
    """Python's own MRO for the equivalent classes, or None if refused."""
    classes = {}
    res = {}
    for n in names:
        bases = tuple(classes[p] for p in tree[n]) or (object,)
        try:
            classes[n] = type(n, bases, {})
        except TypeError:
            return n, res
        res[n] = [c.__name__ for c in classes[n].__mro__
                  if c is not object]
    return None, res


def run(codes, maxp):
    n = len(codes) + 1
    names = NAMES[:n]
    tree = {'root': []}
    for i, c in enumerate(codes, start=1):
        ch = choices(i, maxp)
        c = fork_int(c, 0, len(ch) - 1)
        tree[names[i]] = [names[j] for j in ch[c]]
    bad, want = py_mro(tree, names)
    c3 = C3(tree)
    snapshot = {k: list(v) for k, v in tree.items()}
    for nm in names:
        if nm == bad:
            try:
                c3.mro(nm)
            except Exception:
                break       # namespaces defined on top of it: not compared
            return False
        if c3.mro(nm) != want[nm]:
            return False
    # the tree must be left unchanged (mro is called repeatedly on it)
    return tree == snapshot


def mro5(c1: int, c2: int, c3: int, c4: int) -> bool:
    """
    pre: sl(c4=c4)
    pre: c1 == 0 and 0 <= c2 < len(choices(2, SLICE['maxp']))
    pre: 0 <= c3 < len(choices(3, SLICE['maxp']))
    pre: 0 <= c4 < len(choices(4, SLICE['maxp']))
    post: _
    """
    return run([c1, c2, c3, c4], SLICE['maxp'])


def mro6(c1: int, c2: int, c3: int, c4: int, c5: int) -> bool:
    """
    pre: sl(c5=c5)
    pre: c1 == 0 and 0 <= c2 < len(choices(2, SLICE['maxp']))
    pre: 0 <= c3 < len(choices(3, SLICE['maxp']))
    pre: 0 <= c4 < len(choices(4, SLICE['maxp']))
    pre: 0 <= c5 < len(choices(5, SLICE['maxp']))
    post: _
    """
    return run([c1, c2, c3, c4, c5], SLICE['maxp'])


def OBLIGATIONS(tier):
    big = tier == 'thorough'
    t = 1500 if big else 150
    obs = []
    for c4 in range(len(choices(4, 3))):
        obs.append(Ob(f'mro5[p<=3,c4={c4}]', 'mro5', timeout=t,
                      twin=(c4 == 0), slice={'c4': c4, 'maxp': 3}))
    if big:
        for c5 in range(len(choices(5, 2))):
            obs.append(Ob(f'mro6[p<=2,c5={c5}]', 'mro6', timeout=t,
                          twin=(c5 == 0), slice={'c5': c5, 'maxp': 2}))
    return obs


def VALIDATE():
    """The examples from the module docstring (ex_2, ex_5, ex_6, ex_9)."""
    n = 0
    ex5 = {'O': [], 'F': ['O'], 'E': ['O'], 'D': ['O'], 'C': ['D', 'F'],
           'B': ['D', 'E'], 'A': ['B', 'C']}
    bad, want = py_mro(ex5, list(ex5))
    assert bad is None and C3(ex5).mro('A') == want['A'] == [
        'A', 'B', 'C', 'D', 'E', 'F', 'O']
    ex2 = {'O': [], 'X': ['O'], 'Y': ['O'], 'A': ['X', 'Y'],
           'B': ['Y', 'X'], 'Z': ['A', 'B']}
    bad, want = py_mro(ex2, list(ex2))
    assert bad == 'Z'
    try:
        C3(ex2).mro('Z')
    except Exception:
        pass
    else:
        raise AssertionError('ex_2 accepted')
    ex9 = {'O': [], 'A': ['O'], 'B': ['O'], 'C': ['O'], 'D': ['O'],
           'E': ['O'], 'K1': ['A', 'B', 'C'], 'K2': ['D', 'B', 'E'],
           'K3': ['D', 'A'], 'Z': ['K1', 'K2', 'K3']}
    bad, want = py_mro(ex9, list(ex9))
    assert bad is None and C3(ex9).mro('Z') == want['Z']
    n += 3
    SLICE['maxp'] = 2
    for codes in itertools.product(range(1), range(4), range(9), (0, 5, 15)):
        assert run(list(codes), 2)
        n += 1
    return n

"""C36 — configuration processing is idempotent."""
import os
import shutil
import tempfile

from vf.api import Ob, sl, SLICE, concrete, fork_int, fork_bool, kf

from cylc.flow.parsec.fileparse import parse

META = dict(
    level='model_checking',
    technique='bounded symbolic execution (CrossHair + z3) over symbolic '
              'indices choosing one variant of each configuration feature '
              '(the solver certifies that every combination in the bounded '
              'family was generated); each text goes through the real '
              'fileparse twice and the two results are compared',
    text='Flow files are assembled from symbolic choices of one variant per '
         'feature: Jinja2 (none / set + for loop + expression / raw block, '
         'comment and whitespace control / loop generating continuation '
         'lines / a backslash that only the template produces), an include '
         'file (none / runtime section / inside a section, with its own '
         'continuation line / continuation inside a multi-line value), continuation lines '
         '(none / in a value / in a list / before a comment), multi-line '
         'strings (triple double / triple single quotes with quotes, "#", '
         '"=", brackets and blank lines inside), trailing comments and "#" '
         'inside quoted values, quoted values with inner spaces, repeated '
         'sections and duplicate graph lines. The real fileparse.parse '
         '(read_and_proc: inline, jinja2process, _concatenate; then the '
         'line parser with multiline / addict / addsect) parses the source '
         'and writes the processed file; the processed file is parsed again '
         '(and its own processed output a third time). z3 decides on every '
         'path that the three nested dictionaries are equal, key order '
         'included, and that the processed text is a fixed point of the '
         'processing.',
    note='the parser is regex-over-lines code and Jinja2 a template engine: '
         'texts are concrete, chosen by symbolic indices; equality is on the '
         'raw parsed values (before spec validation), which is stronger '
         'than equality after coercion.',
    functions=['fileparse.parse', 'read_and_proc', '_concatenate',
               'multiline', 'addict', 'addsect', 'include.inline',
               'jinja2support.jinja2process'],
    bounds=['5 x 4 x 4 x 3 x 3 x 2 x 2 = 2880 texts (quick: 2 of the 4 '
            'continuation variants: none in the top-level file / before a '
            'comment)'],
    stubs=['none (scratch source directory)'],
    assumptions=[],
    outside=['spec validation and coercion (parsec/validate.py)',
             'template variables from the command line / plugins',
             'EmPy (removed)', 'include files that include files'],
)

JINJA = [
    ('', '', 'R1 = "foo => bar"'),
    ('#!jinja2\n{% set N = 2 %}\n',
     '{% for i in range(N) %}\n    [[t{{ i }}]]\n        script = echo '
     '{{ i + 1 }}\n{% endfor %}\n',
     'R1 = "{% for i in range(N) %}t{{ i }} => {% endfor %}foo => bar"'),
    ('#!Jinja2\n{# a comment #}\n{%- set WORD = "a b" %}\n',
     '    [[w]]\n        script = echo {{ WORD }} {% raw %}"{{ literal }}" '
     '{# kept #}{% endraw %}\n',
     'R1 = "foo => bar"\n{% raw %}        # {{ not templated }}{% endraw %}'),
    ('#!jinja2\n', '',
     'R1 = """\n{% for x in ["foo", "bar"] %}            {{ x }} => \\\n'
     '{% endfor %}            baz\n        """'),
    # a continuation line that only Jinja2 produces (no source line ends in
    # a backslash)
    ('#!jinja2\n{% set BS = "\\\\" %}\n',
     '    [[j]]\n        script = """\n            echo one {{ BS }}\n'
     '            two\n        """\n',
     'R1 = "foo => bar"'),
]
INCLUDE = [
    ('', ''),
    ('%include "inc/rt.cylc"\n',
     '    [[inc]]\n        script = echo inc \\\n            more\n'),
    ('    [[bar]]\n%include "inc/rt.cylc"\n',
     '        pre-script = echo "# in include"  # comment\n'),
    # a continuation line that exists only in the include file, inside a
    # multi-line value
    ('%include "inc/rt.cylc"\n',
     '    [[inc2]]\n        script = """\n            echo a \\\n'
     '            b\n        """\n'),
]
CONT = [
    'script = echo one',
    'script = echo one \\\n            two',
    'inherit = A, \\\n            B',
    'script = echo "x" \\\n  # not a comment, part of the value',
    # (known finding) a backslash followed by trailing blanks, after a "#"
    'script = echo foo # c \\  \n        pre-script = echo kept',
    # (known finding) ... or at the end of a line that is itself continued
    'script = echo a \\\n            b \\   \n        pre-script = echo kept',
]
MULTI = [
    'post-script = echo plain',
    'post-script = """\n            echo "quoted # hash"\n\n            '
    'x=1; [[ $x = 1 ]] && echo \'single\'\n        """',
    "post-script = '''echo start\n            echo \"\"\"inner\"\"\" "
    "# kept\n        '''  # trailing comment",
]
COMMENT = [
    'env-script = echo e',
    'env-script = echo "a # b"  # real comment',
    "env-script = 'echo  two  spaces'   ",
]
REPEAT = ['', '[runtime]\n    [[foo]]\n        err-script = echo again\n']
DUP = ['', '        R1 = "foo => bar"\n']


def text(ji, ii, ci, mi, ki, ri, di):
    head, tasks, graph = JINJA[ji]
    inc_line, inc_body = INCLUDE[ii]
    src = head + '''[scheduler]
    allow implicit tasks = True   # trailing comment
[scheduling]
    [[graph]]
        ''' + graph + '\n' + DUP[di] + '''[runtime]
    [[A]]
    [[B]]
''' + tasks + '''    [[foo]]
        ''' + CONT[ci] + '''
        ''' + MULTI[mi] + '''
        ''' + COMMENT[ki] + '''
''' + inc_line + REPEAT[ri]
    return src, inc_body


def plain(d):
    if isinstance(d, dict):
        return [(k, plain(v)) for k, v in d.items()]
    return d


def _run(ji, ii, ci, mi, ki, ri, di):
    src, inc_body = text(ji, ii, ci, mi, ki, ri, di)
    d = tempfile.mkdtemp(prefix='cylc-verif-c36-')
    cwd = os.getcwd()
    try:
        os.mkdir(os.path.join(d, 'inc'))
        with open(os.path.join(d, 'inc', 'rt.cylc'), 'w') as f:
            f.write(inc_body)
        path = os.path.join(d, 'flow.cylc')
        with open(path, 'w') as f:
            f.write(src)
        os.mkdir(os.path.join(d, 'p1'))
        os.mkdir(os.path.join(d, 'p2'))
        out1 = os.path.join(d, 'p1', 'flow.cylc')
        out2 = os.path.join(d, 'p2', 'flow.cylc')
        out3 = os.path.join(d, 'p2', 'flow-processed.cylc')
        cfg0 = parse(path, output_fname=out1)
        cfg1 = parse(out1, output_fname=out2)
        cfg2 = parse(out2, output_fname=out3)
        if not (plain(cfg0) == plain(cfg1) == plain(cfg2)):
            return False
        # the processed text is a fixed point
        with open(out2) as f2, open(out3) as f3:
            if f2.read() != f3.read():
                return False
        # sanity of the oracle: the features really are in the result
        rt = cfg0['runtime']
        if 'A' not in rt or 'foo' not in rt:
            return False
        return 'R1' in cfg0['scheduling']['graph']
    finally:
        os.chdir(cwd)
        shutil.rmtree(d, ignore_errors=True)


def idempotent(ji: int, ii: int, ci: int, mi: int, ki: int, ri: int,
               di: int) -> bool:
    """
    pre: sl(ji=ji)
    pre: 0 <= ji < 5 and 0 <= ii < 4 and 0 <= ci < 6 and 0 <= mi < 3
    pre: 0 <= ki < 3 and 0 <= ri < 2 and 0 <= di < 2
    pre: SLICE.get('full', True) or ci in (0, 3)
    pre: not kf('C36.idempotent', ji=ji, ii=ii, ci=ci, mi=mi, ki=ki)
    post: _
    """
    ji, ii, ci, mi = (fork_int(ji, 0, 4), fork_int(ii, 0, 3),
                      fork_int(ci, 0, 5), fork_int(mi, 0, 2))
    ki, ri, di = fork_int(ki, 0, 2), fork_int(ri, 0, 1), fork_int(di, 0, 1)
    with concrete():
        return _run(ji, ii, ci, mi, ki, ri, di)


def OBLIGATIONS(tier):
    big = tier == 'thorough'
    t = 1200 if big else 170
    return [Ob(f'idempotent[jinja={j}]', 'idempotent', timeout=t,
               twin=(j == 0), slice={'ji': j, 'full': big})
            for j in range(5)]


def VALIDATE():
    n = 0
    assert _run(0, 0, 0, 0, 0, 0, 0)
    assert _run(1, 1, 1, 1, 1, 1, 1)
    return n + 2

"""C19 — stop-and-restart preserves the workflow state."""
import os
import shutil
import tempfile

from vf.api import Ob, sl, SLICE, concrete, fork_int, fork_bool, Stub
from vf import fx

from cylc.flow.cycling.integer import IntegerPoint
from cylc.flow.flow_mgr import FlowMgr
from cylc.flow.task_pool import TaskPool
from cylc.flow.workflow_db_mgr import WorkflowDatabaseManager

META = dict(
    level='model_checking',
    text='Bounded symbolic execution of a stop-and-restart round trip through '
         'REAL sqlite: a real TaskPool whose proxies have symbolic status, '
         'held flag, flow numbers, submit number, flow-wait and '
         'manual-trigger flags, completed outputs (standard and custom) and '
         'prerequisite states is written with the real '
         'WorkflowDatabaseManager (db_add_new_flow_rows, put_task_pool, '
         'put_update_task_outputs, put_insert_task_jobs, put_tasks_to_hold, '
         'process_queued_ops -> CylcWorkflowDAO.execute_queued_items) into a '
         'private database file, which is then read back by the real restart '
         'path (select_task_pool_for_restart -> TaskPool.'
         'load_db_task_pool_for_restart, select_tasks_to_hold -> '
         'load_db_tasks_to_hold) into a fresh pool. z3 decides on every path '
         'that the restored pool has the same task instances with the same '
         'status (preparing tasks come back waiting with the previous submit '
         'number), flows, held flag, flow-wait / manual flags, completed '
         'outputs, prerequisite satisfaction, and held-task set, and that the '
         'flow counter restored by update_flow_mgr -> FlowMgr.load_from_db '
         'is the highest flow number ever created (flows no longer in the '
         'pool included), so the next new flow gets an unused number. '
         'Obligation resume plays whole runs of fixture run2 through the '
         'main-loop stand-in vf.sim.Sim (real pool, events manager, sqlite '
         'database), stops them after a symbolic main-loop pass - optionally '
         'between job preparation and submission - and again after a second '
         'symbolic pass, restarts from the database each time (jobs keep '
         'running meanwhile, as with stop --now), and decides that the '
         'continued run submits exactly the instances of an uninterrupted '
         'run, each once and under submit number 1, and ends with an empty '
         'pool that Scheduler.check_auto_shutdown accepts.',
    note='fixture "basic", two pooled tasks (a@2 with a custom output, b@2 '
         'with a two-atom prerequisite); real sqlite files in a scratch '
         'directory removed on every path; stop modes, broadcasts (C22), '
         'template variables, xtriggers and the equality of the continued run '
         'with an uninterrupted one are outside; platform lookup uses the '
         'default localhost platform.',
    functions=['WorkflowDatabaseManager.put_task_pool / put_update_task_'
               'outputs / put_insert_task_jobs / put_tasks_to_hold / '
               'process_queued_ops', 'TaskPool.db_add_new_flow_rows',
               'CylcWorkflowDAO.execute_queued_items / '
               'select_task_pool_for_restart / select_task_prerequisites / '
               'select_tasks_to_hold', 'TaskPool.load_db_task_pool_for_restart',
               'TaskPool.load_db_tasks_to_hold', 'TaskPool.update_flow_mgr',
               'FlowMgr.get_flow / load_from_db'],
    bounds=['quick: submit number 1, a@1 atom not forced; thorough: all', 'a@2: 8 statuses, held, flows {1}/{1,2}, submit number 1..2, '
            'flow-wait, manual flags, outputs x / started / succeeded bits '
            'consistent with the status', 'b@2: waiting, atoms in 3 states '
            'each, held'],
    stubs=['data_store_mgr', 'task_events_mgr', 'xtrigger manager (real, '
           'stub scheduler)'],
    assumptions=['rows are written by the calls the scheduler makes at the '
                 'same events (spawn, state change, output completion, job '
                 'submission)'],
    outside=['Scheduler-level restart (options, parameters); stop without '
             '--now differs only in waiting for active jobs first',
             'broadcasts (C22)', 'job polling after restart'],
)

CFG = fx.cfg('basic')
ST = fx.STATUSES
SAT = [False, 'satisfied naturally', 'force satisfied']


def mkpool(path, restart=False):
    mgr = WorkflowDatabaseManager(os.path.dirname(path),
                                  os.path.dirname(path))
    mgr.pri_path = path
    mgr.pub_path = path + '.pub'
    mgr.on_workflow_start(restart)
    tem = Stub('task_events_mgr')
    ds = Stub('data_store_mgr')
    ds.__dict__['xtrigger_tasks'] = {}
    xm = fx.xtrigger_mgr('wf', mgr, ds)
    pool = TaskPool(fx.tokens('wf'), CFG, mgr, tem, xm, ds, FlowMgr(mgr))
    return pool, mgr


def _run(sa, held_a, fl2, sub, fwait, manual, xout, ax, a1, held_b,
         extra=False):
    d = tempfile.mkdtemp(prefix='cylc-verif-c19-')
    try:
        path = os.path.join(d, 'db')
        pool, mgr = mkpool(path)
        flows = {1, 2} if fl2 else {1}
        # flows are created through the flow manager (cold start: flow 1;
        # `cylc trigger --flow=new`: the next number); one extra flow may
        # have run to completion already - none of its tasks is pooled
        nflows = len(flows) + (1 if extra else 0)
        for _ in range(nflows):
            pool.flow_mgr.get_flow()
        a = fx.itask(CFG, 'a', 2, flows=flows)
        b = fx.itask(CFG, 'b', 2)
        # (flow-wait and the manual flag are known when the task is spawned)
        a.flow_wait, a.is_manual_submit = fwait, manual
        for t in (a, b):
            pool.db_add_new_flow_rows(t)         # as at spawn
            pool.add_to_pool(t)
        status = ST[sa]
        # --- events, each with the DB calls the scheduler makes
        if status not in ('waiting', 'expired'):
            a.submit_num = sub
            mgr.put_insert_task_jobs(a, {
                'flow_nums': '[1]', 'is_manual_submit': manual,
                'try_num': 1, 'time_submit': '2020-01-01T00:00:00Z',
                'platform_name': 'localhost', 'job_runner_name': 'background',
                'submit_status': 0})
        outs = {'submitted': ['submitted'],
                'running': ['submitted', 'started'],
                'succeeded': ['submitted', 'started', 'succeeded'],
                'failed': ['submitted', 'started', 'failed'],
                'submit-failed': ['submit-failed'],
                'expired': ['expired']}.get(status, [])
        if xout and status in ('running', 'succeeded', 'failed'):
            outs = outs + ['xx']
        a.state_reset(status, is_held=held_a)
        for m in outs:
            a.state.outputs.set_message_complete(m)
            mgr.put_update_task_outputs(a)
        for pre in b.state.prerequisites:
            for k in list(pre._satisfied):
                pre[k] = SAT[ax] if k.output == 'xx' else SAT[a1]
        b.state_reset(is_held=held_b)
        if held_a:
            pool.hold_active_task(a)
        if held_b:
            pool.hold_active_task(b)
        mgr.put_task_pool(pool)                  # main loop
        mgr.process_queued_ops()
        mgr.pri_dao.close()
        # --- restart: a new pool on the same database file
        pool2, mgr2 = mkpool(path, restart=True)
        dao = mgr2.pri_dao
        dao.select_task_pool_for_restart(pool2.load_db_task_pool_for_restart)
        pool2.load_db_tasks_to_hold()
        pool2.update_flow_mgr()
        # the flow counter: the next new flow gets a number never used before
        fm = pool2.flow_mgr
        if fm.counter != nflows or set(fm.flows) != flows:
            return False
        if fm.get_flow() != nflows + 1:
            return False
        dao.close()
        got = {t.identity: t for t in pool2.get_tasks()}
        if set(got) != {'2/a', '2/b'}:
            return False
        a2, b2 = got['2/a'], got['2/b']
        want_status = 'waiting' if status == 'preparing' else status
        want_sub = a.submit_num - (1 if status == 'preparing' else 0)
        if (a2.state.status, a2.flow_nums, a2.state.is_held, a2.submit_num,
                a2.flow_wait, a2.is_manual_submit) != (
                want_status, flows, held_a, want_sub, fwait, manual):
            return False
        if a2.state.outputs.get_completed_outputs() != (
                a.state.outputs.get_completed_outputs()):
            # (outputs of tasks that had not started running are rebuilt
            # from their status)
            if status in ('running', 'succeeded', 'failed'):
                return False
        if (b2.state.status, b2.state.is_held, b2.flow_nums) != (
                'waiting', held_b, {1}):
            return False
        atoms = {(k.point, k.task, k.output): v
                 for pre in b2.state.prerequisites
                 for k, v in pre._satisfied.items()}
        if atoms != {('2', 'a', 'xx'): SAT[ax],
                     ('1', 'a', 'succeeded'): SAT[a1]}:
            return False
        want_hold = {('a', IntegerPoint('2'))} if held_a else set()
        if held_b:
            want_hold.add(('b', IntegerPoint('2')))
        return pool2.tasks_to_hold == want_hold
    finally:
        shutil.rmtree(d, ignore_errors=True)


def roundtrip(sa: int, held_a: bool, fl2: bool, sub: int, fwait: bool,
              manual: bool, xout: bool, ax: int, a1: int,
              held_b: bool, extra: bool) -> bool:
    """
    pre: sl(sa=sa, extra=extra)
    pre: 0 <= sa < 8 and 1 <= sub <= 2 and 0 <= ax < 3 and 0 <= a1 < 3
    pre: SLICE.get('full', True) or (sub == 1 and a1 <= 1)
    post: _
    """
    sa, sub, ax, a1 = (fork_int(sa, 0, 7), fork_int(sub, 1, 2),
                       fork_int(ax, 0, 2), fork_int(a1, 0, 2))
    bits = [fork_bool(x) for x in (held_a, fl2, fwait, manual, xout, held_b,
                                   extra)]
    held_a, fl2, fwait, manual, xout, held_b, extra = bits
    with concrete():
        return _run(sa, held_a, fl2, sub, fwait, manual, xout, ax, a1, held_b,
                    extra)


CFG2 = fx.cfg('run2')


def _resume(choices, x1, x2, stop1, stop2, prep):
    """A whole run of fixture run2 stopped (stop --now: jobs keep running)
    after main-loop pass stop1 and again after stop2, restarted from the
    database each time; prep: the first stop falls between job preparation
    and job submission of the tasks released in that pass."""
    from vf.sim import Sim
    d = tempfile.mkdtemp(prefix='cylc-verif-c19r-')
    sim = Sim(CFG2, d)
    try:
        sim.cold_start()
        ci = iter(choices)
        jobs = []                       # Sim.submitted across restarts
        preps = []
        for step in range(30):
            if step == stop1 and prep:
                sim.auto_submit = False
            sim.loop()
            if step in (stop1, stop2):
                # --- stop --now, then restart from the database
                jobs += sim.submitted
                preps += sim.prepared
                sim.close()
                sim = Sim(CFG2, d, restart=True)
                sim.restart()
                continue
            act = sim.active()
            if not act:
                if any(t.state.status in ('waiting', 'preparing')
                       and not t.state.is_runahead and t.is_ready_to_run()
                       for t in sim.pool.get_tasks()):
                    continue
                break
            t = act[next(ci, 0) % len(act)]
            outs = []
            if t.tdef.name == 'a' and (x1 if int(t.point) == 1 else x2):
                outs = ['xx']
            sim.finish(t, outputs=outs)
        else:
            return False
        jobs += sim.submitted
        preps += sim.prepared
        want = {('a', 1), ('a', 2), ('c', 1), ('c', 2), ('b', 2),
                ('d', 1), ('d', 2), ('e', 1), ('e', 2)}
        if x1:
            want.add(('b', 1))
        ran = [(j[0], j[1]) for j in jobs]
        if set(ran) != want or len(ran) != len(want):
            return False              # same instances, each job once
        if any(j[2] != 1 for j in jobs):
            return False              # ... under submit number 1
        if any(p[2] != 1 for p in preps):
            return False              # re-prepared under the same number
        return not sim.pool.get_tasks() and sim.can_shutdown()
    finally:
        sim.close()
        shutil.rmtree(d, ignore_errors=True)


def resume(c1: int, c2: int, c3: int, c4: int, c5: int, x1: bool, x2: bool,
           stop1: int, stop2: int, prep: bool) -> bool:
    """
    pre: sl(stop1=stop1)
    pre: 0 <= c1 <= 2 and 0 <= c2 <= 2 and 0 <= c3 <= 2 and 0 <= c4 <= 2
    pre: 0 <= c5 <= 2 and 0 <= stop1 <= 9 and stop1 < stop2 <= 12
    pre: SLICE.get('full', True) or (c4 == 0 and not x2 and stop2 in (stop1 + 1, 12))
    pre: c5 == 0 and stop2 in (stop1 + 1, stop1 + 2, 12)
    post: _
    """
    cs = [fork_int(c, 0, 2) for c in (c1, c2, c3, c4, c5)]
    stop1, stop2 = fork_int(stop1, 0, 9), fork_int(stop2, 1, 12)
    x1, x2, prep = fork_bool(x1), fork_bool(x2), fork_bool(prep)
    with concrete():
        return _resume(cs, x1, x2, stop1, stop2, prep)


def OBLIGATIONS(tier):
    big = tier == 'thorough'
    t = 1800 if big else 170
    return [Ob(f'roundtrip[a={ST[s]},extra-flow={int(e)}]', 'roundtrip',
               timeout=t, twin=(s == 0), slice={'sa': s, 'extra': e, 'full': big})
            for s in range(8) for e in (False, True)] + [
        Ob(f'resume[stop1={k}]', 'resume', timeout=t, twin=(k == 0),
           slice={'stop1': k, 'full': big}) for k in range(10)]


def VALIDATE():
    n = 0
    assert _run(0, False, False, 1, False, False, False, 0, 0, False)
    assert _run(2, True, True, 2, False, True, False, 1, 2, True)
    assert _run(5, False, False, 1, True, False, False, 2, 1, False)
    assert _run(0, False, True, 1, False, False, False, 0, 0, False, True)
    assert _resume([0, 0, 0, 0, 0], False, False, 2, 12, False)
    assert _resume([1, 2, 0, 1, 0], True, True, 1, 3, True)
    return n + 6

"""C39 — workflow names cannot escape the cylc-run directory."""
import itertools
import os
import re

from vf.api import Ob, sl, SLICE

from cylc.flow.exceptions import WorkflowFilesError
from cylc.flow.workflow_files import (
    WorkflowFiles, validate_workflow_name, check_reserved_dir_names)

META = dict(
    level='model_checking',
    text='Bounded symbolic execution of the real validate_workflow_name / '
         'WorkflowNameValidator / check_reserved_dir_names on a symbolic '
         'name (string over an alphabet with . / ~ - space, a digit, a '
         'non-ASCII letter, and the letters needed to spell reserved names): '
         'z3 decides on every path that an accepted name, joined to the '
         'cylc-run directory and normalised, lies strictly inside it, and '
         'that with reserved-name checking no component is a reserved name '
         'or run<number>.',
    note='name length <= 6 for the character-level escape lemma, 1..5 components for the component-level one, over a '
         '9-character alphabet; reserved-name lemma: two symbolic components '
         'each drawn from reserved/near-reserved words joined by symbolic '
         'separators; os.path.normpath (a C function in Python 3.12, which '
         'would realise the string) is replaced by the pure-Python posixpath '
         'algorithm, validated against the real one each run.',
    functions=['validate_workflow_name', 'WorkflowNameValidator.validate '
               '(UnicodeRuleChecker)', 'check_reserved_dir_names'],
    bounds=['escape: |name| <= 6 over {a, 1, ., /, -, ~, '
            'space, e-acute, _}', 'escape_comps: 1..4 (thorough 5) path components each '
            'from {a, ., .., empty, a., ~, -a, 1, e-acute, space}', 'reserved: 2-3 components from '
            '{run1, run, run12, runN, log, share, _cylc-install, work, a, '
            'Run1, run1a, .service, flow.cylc} with separators / // /./'],
    stubs=['os.path.normpath -> pure-Python posixpath.normpath (CPython '
           '3.11 source), differential-tested against the real function'],
    assumptions=['POSIX paths'],
    outside=['symlinks inside cylc-run (filesystem state)',
             'infer_latest_run / runN resolution'],
)

ALPH = 'a1./-~ é_'
RUN = '/R/cylc-run'


def py_normpath(path):
    """posixpath.normpath, pure Python (CPython 3.11)."""
    sep, empty, dot, dotdot = '/', '', '.', '..'
    if path == empty:
        return dot
    initial_slashes = path.startswith(sep)
    if (initial_slashes and path.startswith(sep * 2)
            and not path.startswith(sep * 3)):
        initial_slashes = 2
    comps = path.split(sep)
    new_comps = []
    for comp in comps:
        if comp in (empty, dot):
            continue
        if (comp != dotdot or (not initial_slashes and not new_comps) or
                (new_comps and new_comps[-1] == dotdot)):
            new_comps.append(comp)
        elif new_comps:
            new_comps.pop()
    comps = new_comps
    path = sep.join(comps)
    if initial_slashes:
        path = sep * initial_slashes + path
    return path or dot


def CH_PATCHES():
    """Called by the worker once CrossHair is loaded."""
    from crosshair.core import _PATCH_REGISTRATIONS
    import posixpath
    _PATCH_REGISTRATIONS[posixpath.normpath] = py_normpath


def accepted(name, reserved):
    try:
        validate_workflow_name(name, check_reserved_names=reserved)
    except WorkflowFilesError:
        return False
    return True


def _ok(name):
    alph = SLICE.get('alph', ALPH)
    return all(c in alph for c in name)


def escape(name: str) -> bool:
    """
    pre: 1 <= len(name) <= SLICE['n'] and _ok(name)
    pre: len(name) == SLICE['n']
    post: _
    """
    if not accepted(name, False):
        return True
    full = py_normpath(RUN + '/' + name)
    return full.startswith(RUN + '/') and len(full) > len(RUN) + 1


COMPS = ['a', '.', '..', '', 'a.', '~', '-a', '1', 'é', ' ']


def escape_comps(c1: int, c2: int, c3: int, c4: int, c5: int, n: int) -> bool:
    """
    pre: sl(c1=c1)
    pre: 0 <= c1 < len(COMPS) and 0 <= c2 < len(COMPS) and 0 <= c3 < len(COMPS)
    pre: 0 <= c4 < len(COMPS) and 0 <= c5 < len(COMPS)
    pre: 1 <= n <= SLICE['maxn']
    pre: (n >= 5 or c5 == 0) and (n >= 4 or c4 == 0) and (n >= 3 or c3 == 0)
    pre: n >= 2 or c2 == 0
    post: _
    """
    # names built from path components (reaches the region of longer names
    # that the character-level harness cannot: 'a/../..', 'a/./../../a' ...)
    from vf.api import fork_int
    hi = len(COMPS) - 1
    cs = [fork_int(c, 0, hi) for c in (c1, c2, c3, c4, c5)]
    n = fork_int(n, 1, 5)
    name = '/'.join(COMPS[c] for c in cs[:n])
    if not accepted(name, False):
        return True
    full = py_normpath(RUN + '/' + name)
    return full.startswith(RUN + '/') and len(full) > len(RUN) + 1


WORDS = ['run1', 'run', 'run12', 'runN', 'log', 'share', '_cylc-install',
         'work', 'a', 'Run1', 'run1a', '.service', 'flow.cylc', 'share.d']
SEPS = ['/', '//', '/./']


def reserved(w1: int, w2: int, w3: int, s1: int, s2: int, n: int) -> bool:
    """
    pre: 0 <= w1 < len(WORDS) and 0 <= w2 < len(WORDS) and 0 <= w3 < len(WORDS)
    pre: 0 <= s1 < 3 and 0 <= s2 < 3 and 2 <= n <= 3
    pre: sl(w1=w1)
    post: _
    """
    from vf.api import fork_int
    w1, w2, w3 = (fork_int(w1, 0, len(WORDS) - 1),
                  fork_int(w2, 0, len(WORDS) - 1),
                  fork_int(w3, 0, len(WORDS) - 1))
    s1, s2, n = fork_int(s1, 0, 2), fork_int(s2, 0, 2), fork_int(n, 2, 3)
    parts = [WORDS[w1], WORDS[w2], WORDS[w3]][:n]
    name = parts[0] + SEPS[s1] + parts[1]
    if n == 3:
        name += SEPS[s2] + parts[2]
    if not accepted(name, True):
        return True
    res = set(WorkflowFiles.RESERVED_NAMES)
    for comp in parts:
        if comp in res or re.match(r'^run\d+$', comp):
            return False
    return True


def OBLIGATIONS(tier):
    big = tier == 'thorough'
    t = 1800 if big else 170
    obs = []
    # (7 characters: 20+ minutes for one obligation; thorough deepens the
    # component-level harness instead)
    for n in (1, 2, 3, 4, 5, 6):
        obs.append(Ob(f'escape[len={n}]', 'escape',
                      timeout=(3000 if n > 6 else t) if big else 400,
                      slice={'n': n}))
    for c1 in range(len(COMPS)):
        obs.append(Ob(f'escape_comps[c1={c1}]', 'escape_comps', timeout=t,
                      twin=(c1 == 0),
                      slice={'c1': c1, 'maxn': 5 if big else 4}))
    for w1 in range(len(WORDS)):
        obs.append(Ob(f'reserved[w1={WORDS[w1]}]', 'reserved', timeout=t,
                      twin=(w1 == 0), slice={'w1': w1}))
    return obs


def VALIDATE():
    n = 0
    for k in range(0, 5):
        for tup in itertools.product('a./~', repeat=k):
            s = ''.join(tup)
            assert py_normpath(s) == os.path.normpath(s), s
            n += 1
    for s in ('/R/cylc-run/a/../..', '//a', '///a/./b/', 'a/../../b'):
        assert py_normpath(s) == os.path.normpath(s), s
        n += 1
    # literals from tests/unit/test_workflow_files.py
    for name, ok in (('foo/bar', True), ('/foo', False), ('./foo', False),
                     ('foo/../..', False), ('meow/..', False), ('.', False),
                     ('~/foo', False), ('a', True), ('foo/../../bar', False)):
        assert accepted(name, False) == ok, name
        n += 1
    assert not accepted('foo/run1', True) and accepted('foo/run1', False)
    assert not accepted('foo/log/x', True)
    SLICE['n'] = 3
    assert escape('a/b') and escape('../')
    SLICE.clear()
    return n + 4

"""C28 — group trigger runs each member once, honouring in-group order."""
import asyncio
import shutil
import tempfile

from vf.api import Ob, sl, SLICE, concrete, fork_int, fork_bool, kf
from vf import fx
from vf.sim import Sim, LIVE

from cylc.flow import commands
from cylc.flow.id import TaskTokens

META = dict(
    level='model_checking',
    technique='bounded symbolic execution (CrossHair + z3) over symbolic '
              'run prefixes, group subsets, flow options, hold / pause bits '
              'and completion orders; every path runs the real command on a '
              'real pool with a real sqlite database',
    text='A small workflow (a => b => c; z => b) is played through the real '
         'TaskPool / TaskEventsManager / WorkflowDatabaseManager (real sqlite '
         'file) by the main-loop stand-in vf.sim.Sim for a symbolic number of '
         'job completions in a symbolic order (optionally with z never '
         'finishing, so that b is stuck on an off-group prerequisite); then '
         'all tasks are optionally held, the workflow optionally paused, and '
         'the real commands.force_trigger_tasks (id matching, connected '
         'groups, _force_trigger_tasks -> _remove_matched_tasks, '
         '_set_prereqs_tdef, queue_or_trigger, merge_flows, '
         'release_held_tasks) is run for a symbolic subset of {a, z, b, c} '
         'with --flow unset or new; the run then continues through the real '
         'Scheduler.release_tasks_to_run in a symbolic completion order. z3 '
         'certifies every combination within the bound was taken; on each, '
         'group-start members without a live job are submitted in the first '
         'main-loop pass after the command even when held or paused, '
         'group-start members with a live job are not resubmitted, every '
         'other member is submitted exactly once and only after each of its '
         'in-group parents succeeded after the command, although its '
         'off-group parent never finishes, and no member is submitted twice.',
    note='fixtures "group" (one cycle point) and "group2" (foo[-P1] => '
         'foo; foo => bar over three cycle points: in-group dependence '
         'across cycles), no queue limits; --flow=none '
         'and repeated triggers are explored in the thorough tier only where '
         'stated; job preparation and messages are played by the stand-in.',
    functions=['commands.force_trigger_tasks', 'commands._force_trigger_tasks',
               'commands._remove_matched_tasks', 'TaskPool._set_prereqs_tdef',
               'TaskPool.queue_or_trigger', 'TaskPool.merge_flows',
               'TaskPool.release_held_tasks', 'TaskPool.id_match',
               'get_connected_groups', 'Scheduler.release_tasks_to_run',
               'WorkflowDatabaseManager.remove_task_from_flows (real SQL)'],
    bounds=['prefix: 6 stages (finished: none / a / z / a,z / a,z,b / all); z '
            'never finishing (stages 0, 1)',
            '15 subsets of {a, z, b, c}; flow unset / new; held bit; paused '
            'bit; 3 order bits after the command'],
    stubs=['job preparation / submission / messages played by vf.sim.Sim',
           'data_store_mgr', 'proc_pool', 'broadcast_mgr'],
    assumptions=[],
    outside=['queue limits (queue_or_trigger under a full queue)',
             'xtriggers and external triggers of members', 'reload between '
             'spawn and trigger', 'pre-start-point members (C46)'],
)

CFG = fx.cfg('group')
FLOWS = [[], ['new']]


def command(sim, ids, flow):
    async def go():
        gen = commands.force_trigger_tasks(sim.schd, ids, list(flow))
        await gen.__anext__()              # validation
        try:
            await gen.__anext__()          # execution
        except StopAsyncIteration:
            pass
    asyncio.run(go())


SPEC1 = dict(
    cfg=CFG, ids=['1/a', '1/z', '1/b', '1/c'],
    parents={'1/a': [], '1/z': [], '1/b': ['1/a', '1/z'], '1/c': ['1/b']},
    stages=[[], ['1/a'], ['1/z'], ['1/a', '1/z'], ['1/a', '1/z', '1/b'],
            ['1/a', '1/z', '1/b', '1/c']],
    block='1/z')
# inter-cycle dependence inside the group: foo[-P1] => foo; foo => bar
CFGC = fx.cfg('group2')
SPEC2 = dict(
    cfg=CFGC, ids=['1/foo', '2/foo', '3/foo', '2/bar'],
    parents={'1/foo': [], '2/foo': ['1/foo'], '3/foo': ['2/foo'],
             '2/bar': ['2/foo']},
    stages=[[], ['1/foo'], ['1/foo', '1/bar', '2/foo'],
            ['1/foo', '1/bar', '2/foo', '2/bar', '3/foo', '3/bar']],
    block=None)


def connected(gset, parents):
    seen, todo = set(), [sorted(gset)[0]]
    while todo:
        n = todo.pop()
        if n in seen:
            continue
        seen.add(n)
        todo += [m for m in gset if m in parents[n] or n in parents[m]]
    return seen == gset


def _run(stage, zblock, gmask, fi, hold, paused, p1, p2, p3, spec=SPEC1):
    ids, parents = spec['ids'], spec['parents']
    d = tempfile.mkdtemp(prefix='cylc-verif-c28-')
    sim = Sim(spec['cfg'], d)
    try:
        sim.cold_start()

        def pick(order, block):
            act = [t for t in sim.active() if t.identity not in block]
            if not act:
                return None
            return act[next(order, 0) % len(act)]
        for ident in spec['stages'][stage]:
            sim.loop()
            t = [t for t in sim.active() if t.identity == ident]
            if not t:
                return False             # (harness: stage not reachable)
            sim.finish(t[0])
        sim.loop()
        group = [n for i, n in enumerate(ids) if gmask >> i & 1]
        gset = set(group)
        if hold:
            sim.pool.hold_tasks({
                TaskTokens(*n.split('/')) for n in ids})
            sim.flush()
        sim.schd.is_paused = paused
        status0 = {t.identity: t.state.status for t in sim.pool.get_tasks()}
        n0 = len(sim.submitted)
        # ---- the command
        command(sim, group, FLOWS[fi])
        start = {m for m in group if not (set(parents[m]) & gset)}
        live = {m for m in start if status0.get(m) in LIVE}
        done_after = set()
        ok = [True]
        # the flows the command triggers in: all active flows (here {1}), or
        # new flows (numbers from 2: one per connected sub-group)

        def triggered(flows):
            return (1 in flows) if fi == 0 else any(f >= 2 for f in flows)
        final_flows = {}         # (id, submit_num) -> flows when it finished

        def on_submit(t):
            name = t.identity
            if name in gset and name not in start and triggered(t.flow_nums):
                if not all(p in done_after
                           for p in parents[name] if p in gset):
                    ok[0] = False      # ran before an in-group parent
        sim.on_submit = on_submit
        post = iter([p1, p2, p3])
        # z stays blocked after the command unless it is a member
        block = {spec['block']} if (
            zblock and spec['block'] not in gset) else ()
        for step in range(16):
            sim.loop()
            if step == 0:
                # group-start members without a live job start at once
                now = {f'{s[1]}/{s[0]}' for s in sim.submitted[n0:]}
                if not (start - live) <= now:
                    return False
            if step == 1:
                sim.schd.is_paused = False
            t = pick(post, block)
            if t is None:
                if step >= 2:
                    break
                continue
            final_flows[(t.identity, t.submit_num)] = frozenset(t.flow_nums)
            sim.finish(t)
            done_after.add(t.identity)
        if not ok[0]:
            return False
        counts = {}
        after = []
        for s in sim.submitted[n0:]:
            ident = f'{s[1]}/{s[0]}'
            after.append((ident, s[2],
                          s[3] | final_flows.get((ident, s[2]), s[3])))
        for name, _sub, flows in after:
            # (flows merge into a job that is already active: it counts)
            if triggered(flows):
                counts[name] = counts.get(name, 0) + 1
        # (--flow=new on a group that is not connected starts one new flow
        # per connected part, and the parts then feed each other's
        # downstream tasks: per-member counts are only claimed for connected
        # groups there)
        if fi == 0 or connected(gset, parents):
            for m in group:
                n = counts.get(m, 0)
                if fi == 1 and m not in start and status0.get(m) in LIVE:
                    # a job of another flow is already running: the new
                    # flow merges into it when it arrives (flow merge)
                    if n > 1:
                        return False
                elif n != (0 if m in live else 1):
                    return False
        # nobody runs twice in one flow after the command
        for i, s1 in enumerate(after):
            for s2 in after[i + 1:]:
                if s1[0] == s2[0] and (s1[2] & s2[2]):
                    return False
        # no job launched twice under one submit number
        keys = [s[:3] for s in sim.submitted]
        return len(keys) == len(set(keys))
    finally:
        sim.close()
        shutil.rmtree(d, ignore_errors=True)


def cycles(stage: int, gmask: int, fi: int, hold: bool, paused: bool,
           p1: int, p2: int) -> bool:
    """
    pre: sl(fi=fi, stage=stage)
    pre: 0 <= stage < 4 and 1 <= gmask <= 15 and 0 <= fi <= 1
    pre: 0 <= p1 <= 1 and 0 <= p2 <= 1
    pre: not kf('C28.cycles', stage=stage, gmask=gmask, fi=fi)
    post: _
    """
    stage, gmask, fi = (fork_int(stage, 0, 3), fork_int(gmask, 1, 15),
                        fork_int(fi, 0, 1))
    p1, p2 = fork_int(p1, 0, 1), fork_int(p2, 0, 1)
    hold, paused = fork_bool(hold), fork_bool(paused)
    with concrete():
        return _run(stage, False, gmask, fi, hold, paused, p1, p2, 0, SPEC2)


def trigger(stage: int, zblock: bool, gmask: int, fi: int, hold: bool,
            paused: bool, p1: int, p2: int, p3: int) -> bool:
    """
    pre: sl(gmask=gmask)
    pre: 0 <= stage < 6 and 1 <= gmask <= 15
    pre: 0 <= fi <= 1 and 0 <= p1 <= 1 and 0 <= p2 <= 1 and 0 <= p3 <= 1
    pre: not zblock or stage <= 1
    pre: SLICE.get('post', True) or (p2 == 0 and p3 == 0)
    pre: not kf('C28.trigger', stage=stage, gmask=gmask, fi=fi)
    post: _
    """
    stage, gmask, fi = (fork_int(stage, 0, 5), fork_int(gmask, 1, 15),
                        fork_int(fi, 0, 1))
    p1, p2, p3 = fork_int(p1, 0, 1), fork_int(p2, 0, 1), fork_int(p3, 0, 1)
    zblock, hold, paused = (fork_bool(zblock), fork_bool(hold),
                            fork_bool(paused))
    with concrete():
        return _run(stage, zblock, gmask, fi, hold, paused, p1, p2, p3)


def OBLIGATIONS(tier):
    big = tier == 'thorough'
    t = 2400 if big else 170
    return [Ob(f'trigger[group={g}]', 'trigger', timeout=t, twin=(g == 1),
               slice={'gmask': g, 'post': big})
            for g in range(1, 16)] + [
        Ob(f'cycles[flow={f},stage={st}]', 'cycles', timeout=t,
           twin=(st == 0), slice={'fi': f, 'stage': st})
        for f in (0, 1) for st in range(4)]


def VALIDATE():
    n = 0
    assert _run(5, False, 0b0101, 0, False, False, 0, 0, 0)
    assert _run(1, True, 0b0100, 0, True, True, 0, 1, 0)
    assert _run(0, False, 0b1111, 1, False, True, 1, 0, 1)
    return n + 3

"""C24 — restricted expression evaluation cannot run arbitrary code."""
import ast

from vf.api import Ob, sl, SLICE, concrete, fork_int

from cylc.flow.exceptions import InvalidCompletionExpression
from cylc.flow.task_outputs import CompletionEvaluator
from cylc.flow.util import restricted_evaluator

META = dict(
    level='model_checking',
    technique='bounded symbolic execution (CrossHair + z3) over symbolic '
              'node-kind indices: the solver certifies that every expression '
              'tree in the bounded family was generated; each is run through '
              'the real restricted evaluator with side-effect canaries',
    text='Expression trees are assembled from symbolic node-kind indices over '
         '33 leaf forms covering every expression node class Python\'s ast '
         'exports that can appear in an eval-mode expression (names, calls, '
         'attribute access, subscripts, slices, lambdas, the four '
         'comprehensions, walrus, conditional expressions, comparisons, '
         'unary / binary / boolean operators, f-strings, starred, await, '
         'yield, literals and containers), combined by and / or / | up to '
         'depth 3, and passed to the real CompletionEvaluator and to a fresh '
         'restricted_evaluator with the same whitelist. Every variable is a '
         'canary object that records any call, attribute access, item '
         'access, comparison or truth test. z3 decides on every path that an '
         'expression is accepted only if every node class in it belongs to an '
         'independently written safe list, that a rejected expression raises '
         'the configured error before any canary is touched, and that '
         'accepted expressions see no builtins and no names other than the '
         'supplied variables. Each expression is first shown to a second, '
         'more permissive restricted evaluator in the same process (the '
         'whitelist of the host-selection ranking evaluator): what that one '
         'permits must not change the verdict of the strict ones.',
    note='finite family (kinds x positions): root operator in {and, or, |, '
         'none}, two operands each a leaf form or a parenthesised and/or of '
         'a leaf form with a name; the solver certifies exhaustion of this '
         'family - it does not reason about the evaluator symbolically '
         '(ast.parse / compile / eval are C functions).',
    functions=['restricted_evaluator / _eval', 'RestrictedNodeVisitor.visit',
               'CompletionEvaluator', '_get_exception'],
    bounds=['33 leaf forms; operands: leaf | (leaf and name) | (leaf or '
            'name) | thorough: (name and (leaf | (name or name))); root: and '
            '/ or / | / single operand'],
    stubs=['none'],
    assumptions=[],
    outside=['Jinja2 / parsec evaluation elsewhere in the config layer',
             'denial of service by large expressions'],
)

LEAVES = [
    'a', 'b', 'a()', 'a.x', 'a[0]', 'a[0:1]', '(lambda: a)', '[x for x in a]',
    '{x for x in a}', '{x: x for x in a}', '(x for x in a)', '(z := a)',
    '(a if b else a)', 'a == b', 'not a', '-a', 'a + b', 'f"{a}"', '[*a]',
    '1', '"s"', '[a]', '{a: b}', '__import__("os")', 'len', 'a.__class__',
    '(await a)', '(yield a)', 'a < b < a', '...', '{a}', '(a, b)',
    '(a and b)',
]
SAFE = (ast.Expression, ast.Name, ast.Load, ast.BoolOp, ast.And, ast.Or,
        ast.BinOp, ast.BitOr, ast.BitAnd)
ROOTS = ['and', 'or', '|', None]
# the node classes cylc.flow.host_select allows in ranking expressions
PERMISSIVE_SAFE = (
    ast.Expression, ast.Name, ast.Load, ast.BoolOp, ast.And, ast.Or,
    ast.BinOp, ast.operator, ast.UnaryOp, ast.unaryop, ast.Compare,
    ast.cmpop, ast.Attribute, ast.Subscript, ast.Constant, ast.Tuple,
    ast.Slice)
PERMISSIVE = restricted_evaluator(
    *PERMISSIVE_SAFE, error_class=InvalidCompletionExpression)


class Canary:
    """Records every way it could be executed."""

    def __init__(self, log, name):
        object.__setattr__(self, '_log', log)
        object.__setattr__(self, '_name', name)

    def _hit(self, what):
        self._log.append((self._name, what))

    def __call__(self, *a, **k):
        self._hit('call')
        return self

    def __getattr__(self, attr):
        self._hit('getattr ' + attr)
        return self

    def __getitem__(self, item):
        self._hit('getitem')
        return self

    def __iter__(self):
        self._hit('iter')
        return iter(())

    def __bool__(self):
        self._hit('bool')
        return True

    def __eq__(self, other):
        self._hit('eq')
        return True

    def __lt__(self, other):
        self._hit('lt')
        return True

    def __hash__(self):
        return 1

    def __neg__(self):
        self._hit('neg')
        return self

    def __add__(self, other):
        self._hit('add')
        return self

    def __or__(self, other):
        self._hit('or')
        return self

    __ror__ = __or__

    def __format__(self, spec):
        self._hit('format')
        return ''


def operand(kind):
    n = len(LEAVES)
    if kind < n:
        return LEAVES[kind]
    if kind < 2 * n:
        return f'({LEAVES[kind - n]} and b)'
    if kind < 3 * n:
        return f'(a or {LEAVES[kind - 2 * n]})'
    # (thorough tier) one level deeper
    return f'(a and ({LEAVES[kind - 3 * n]} | (b or a)))'


def build(root, k1, k2):
    if ROOTS[root] is None:
        return operand(k1)
    return f'{operand(k1)} {ROOTS[root]} {operand(k2)}'


def _check(root, k1, k2):
    src = build(root, k1, k2)
    try:
        tree = ast.parse(src, mode='eval')
    except SyntaxError:
        tree = None
    classes = {type(n) for n in ast.walk(tree)} if tree else set()
    independent_ok = tree is not None and all(
        issubclass(c, SAFE) for c in classes)
    generic = restricted_evaluator(
        ast.Expression, ast.Name, ast.Load, ast.BoolOp, ast.And, ast.Or,
        ast.BinOp, error_class=InvalidCompletionExpression)
    # history independence: a more permissive evaluator (the host-selection
    # ranking evaluator's whitelist) sees the same expression first - what it
    # permits must not leak into the strict evaluators used afterwards
    plog = []
    try:
        PERMISSIVE(src, a=Canary(plog, 'a'), b=Canary(plog, 'b'))
        p_ok = True
    except InvalidCompletionExpression:
        p_ok = False
    except Exception:
        # accepted, then failed while evaluating (e.g. 1 | "s": constants
        # are permitted there) - still subject to the whitelist check below
        p_ok = True
    if p_ok and not (tree is not None and all(
            issubclass(c, PERMISSIVE_SAFE) for c in classes)):
        return False
    for evaluator in (CompletionEvaluator, generic):
        log = []
        env = {'a': Canary(log, 'a'), 'b': Canary(log, 'b')}
        try:
            evaluator(src, **env)
            accepted = True
        except InvalidCompletionExpression:
            accepted = False
            if log:
                return False      # something ran before the rejection
        except NameError:
            # accepted syntax, but it named something that was not supplied
            accepted = True
            if not independent_ok:
                return False
        except Exception:
            return False          # anything else means code was executed
        if accepted and not independent_ok:
            return False          # non-whitelisted syntax got through
        if accepted:
            # only truth tests / | of the supplied variables may have happened
            if any(what not in ('bool', 'or') for _n, what in log):
                return False
    return True


def _no_builtins(i):
    # no builtins, no names from the calling scope
    name = ['len', '__import__', 'open', 'CompletionEvaluator', 'c',
            '__builtins__', 'print', 'eval'][i]
    c = 1      # noqa: F841 (must not be visible to the evaluator)
    for src, aval in ((f'a or {name}', False), (f'{name}', True),
                      (f'a and {name} and a', True)):
        try:
            got = CompletionEvaluator(src, a=aval)
        except NameError:
            continue
        if name == '__builtins__' and (got == {} or got is True):
            # the name resolves to the *empty* mapping the evaluator installs
            # in place of the builtins: nothing is reachable through it
            continue
        return False
    return True


def no_builtins(i: int) -> bool:
    """
    pre: 0 <= i < 8
    post: _
    """
    i = fork_int(i, 0, 7)
    with concrete():
        return _no_builtins(i)


def trees(root: int, k1: int, k2: int) -> bool:
    """
    pre: sl(root=root)
    pre: SLICE['lo'] <= k1 < SLICE['lo'] + 11
    pre: 0 <= root < len(ROOTS) and 0 <= k1 < SLICE.get('bands', 3) * len(LEAVES)
    pre: 0 <= k2 < SLICE.get('bands', 3) * len(LEAVES)
    pre: root != 3 or k2 == 0
    post: _
    """
    root = fork_int(root, 0, 3)
    k1 = fork_int(k1, 0, 4 * len(LEAVES) - 1)
    k2 = fork_int(k2, 0, 4 * len(LEAVES) - 1)
    with concrete():
        return _check(root, k1, k2)


def OBLIGATIONS(tier):
    big = tier == 'thorough'
    t = 1200 if big else 160
    obs = [Ob('no_builtins', 'no_builtins', timeout=t)]
    for r in range(len(ROOTS)):
        bands = 4 if big else 3
        for lo in range(0, bands * len(LEAVES), 11):
            obs.append(Ob(f'trees[root={ROOTS[r]},k1={lo}..]', 'trees',
                          timeout=t, twin=(lo == 0),
                          slice={'root': r, 'lo': lo, 'bands': bands}))
    return obs


def VALIDATE():
    n = 0
    # docstring examples of restricted_evaluator / CompletionEvaluator
    assert CompletionEvaluator('succeeded and x', succeeded=True, x=True)
    for bad in ('my_function()', '__import__("os")', 'a - b', 'a.b', 'a[0]'):
        try:
            CompletionEvaluator(bad, a=1, b=2)
        except InvalidCompletionExpression:
            n += 1
        else:
            raise AssertionError(bad)
    assert _check(0, 0, 1) and _check(0, 2, 0) and _check(2, 0, 1)
    # every expression class of the ast module appears in the leaf forms
    have = set()
    for leaf in LEAVES:
        try:
            have |= {type(x) for x in ast.walk(ast.parse(leaf, mode='eval'))}
        except SyntaxError:
            pass
    missing = [c.__name__ for c in ast.expr.__subclasses__()
               if c not in have and c.__name__ not in (
                   'Num', 'Str', 'Bytes', 'NameConstant', 'Ellipsis',
                   'YieldFrom', 'TemplateStr', 'Interpolation')]
    assert not missing, missing
    return n + 4

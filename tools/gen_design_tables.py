#!/usr/bin/env python3
"""Regenerate the generated tables of DESIGN.md (between the
<!-- GEN:name --> ... <!-- /GEN:name --> markers) from props/*.py META,
known_findings.json, seeded/*/meta.json and evidence/*.json."""
import glob
import json
import os
import re
import sys

V = os.path.dirname(os.path.dirname(os.path.abspath(__file__)))
sys.path.insert(0, os.path.join(V, 'tools'))
from gen_manifest import meta_of  # noqa: E402


def esc(s):
    return str(s).replace('|', '\\|').replace('\n', ' ')


def claimed():
    ids = [json.loads(x)['id'] for x in open(
        os.path.join(V, 'properties.jsonl'))]
    rows = []
    for pid in ids:
        path = os.path.join(V, 'props', pid + '.py')
        if not os.path.exists(path):
            continue
        meta = meta_of(path)
        ev = {}
        evp = os.path.join(V, 'evidence', pid + '.json')
        if os.path.exists(evp):
            try:
                ev = json.load(open(evp))
            except Exception:
                ev = {}
        cov = ev.get('coverage', {}) if isinstance(ev, dict) else {}
        nob = cov.get('obligations') or cov.get('queries_discharged') or ''
        wall = ev.get('wall_seconds') or cov.get('wall_seconds') or ''
        kind = ('case-split' if 'fork_' in open(path).read() else 'symbolic')
        src = open(path).read()
        if "kind='smt'" in src:
            kind = (kind + ' + z3 queries') if 'post: _' in src else (
                'z3 queries over results of the real code')
        if 'fork_' in src and ("pre: -" in src or 'symbolic through' in src):
            kind = 'symbolic + case-split'
        rows.append(f"| {pid} | {kind} | {esc(', '.join(meta['functions'])[:230])} "
                    f"| {esc('; '.join(meta['bounds'])[:260])} |")
    head = ('| id | inputs | functions of /repo exercised | bounds (short; '
            'full text in props/*.py META and the evidence file) |\n'
            '|---|---|---|---|')
    return head + '\n' + '\n'.join(rows)


def findings(status):
    d = json.load(open(os.path.join(V, 'known_findings.json')))['findings']
    rows = []
    for e in d:
        if e['status'] != status:
            continue
        what = re.sub(r'^fixed: property=\S+ \S+ ', '', e['what'])
        if status == 'fixed':
            rows.append(f"| {e['property']} | {e['commit']} | {esc(what)} |")
        else:
            rows.append(f"| {e['property']} | `{e['id']}` | {esc(what)} | "
                        f"`{esc(e['region'])}` | {esc(e.get('why_not_fixed', ''))} |")
    if status == 'fixed':
        head = '| property | commit | what failed |\n|---|---|---|'
    else:
        head = ('| property | id | what fails | excluded region of the '
                'obligation | why recorded, not repaired |\n|---|---|---|---|---|')
    return head + '\n' + '\n'.join(rows)


def seeds():
    rows = []
    for p in sorted(glob.glob(os.path.join(V, 'seeded', '*', 'meta.json')),
                    key=lambda x: (x.split('/')[-2])):
        m = json.load(open(p))
        name = p.split('/')[-2]
        caught = '; '.join(m.get('caught_by') or []) or '**not caught**'
        miss = m.get('first_run_missed') or m.get('why_missed') or ''
        rows.append(f"| {name} | {esc(m.get('file', ''))} | "
                    f"{esc(m.get('needs', ''))[:300]} | {esc(caught)} | "
                    f"{esc(miss)[:300]} |")
    head = ('| seed | file | needs, to manifest | caught by | missed at '
            'first, and what was added |\n|---|---|---|---|---|')
    return head + '\n' + '\n'.join(rows)


def na():
    d = json.load(open(os.path.join(V, 'tools', 'not_applicable.json')))
    ids = [json.loads(x)['id'] for x in open(
        os.path.join(V, 'properties.jsonl'))]
    rows = [f'* **{pid}** {d[pid]}' for pid in ids
            if pid in d and not os.path.exists(
                os.path.join(V, 'props', pid + '.py'))]
    return '\n'.join(rows)


def tiers():
    rows = []
    thor = {}
    try:
        thor = json.load(open(os.path.join(V, 'thorough_runs.json')))['runs']
    except Exception:
        pass
    ids = [json.loads(x)['id'] for x in open(
        os.path.join(V, 'properties.jsonl'))]
    for pid in ids:
        evp = os.path.join(V, 'evidence', pid + '.json')
        if not os.path.exists(evp):
            continue
        ev = json.load(open(evp))
        cov = ev.get('coverage', {})
        t = thor.get(pid)
        if t is None:
            tt = 'not run end to end in this session (bounds sized from the quick tier)'
        elif t['exit'] != 0:
            tt = f"stopped after {t['wall_s']} s (bounds reduced afterwards)"
        else:
            tt = (f"{t['wall_s']} s, {t['discharged']}/{t['obligations']} "
                  f"obligations" + (f", {t['inconclusive']} inconclusive "
                                    "(bounds reduced afterwards)"
                                    if t['inconclusive'] else ''))
        rows.append(f"| {pid} | {ev.get('wall_s', '')} s, "
                    f"{cov.get('discharged', '')}/{cov.get('obligations', '')}"
                    f" obligations, {cov.get('states', '')} paths | {tt} |")
    head = ('| id | quick tier (last evidence run) | thorough tier (last '
            'end-to-end run) |\n|---|---|---|')
    return head + '\n' + '\n'.join(rows)


def main():
    path = os.path.join(V, 'DESIGN.md')
    s = open(path).read()
    for name, fn in (('claimed', claimed), ('fixed', lambda: findings('fixed')),
                     ('known', lambda: findings('known')), ('seeds', seeds),
                     ('na', na), ('tiers', tiers)):
        a, b = f'<!-- GEN:{name} -->', f'<!-- /GEN:{name} -->'
        if a in s and b in s:
            i, j = s.index(a) + len(a), s.index(b)
            s = s[:i] + '\n' + fn() + '\n' + s[j:]
    open(path, 'w').write(s)


if __name__ == '__main__':
    main()

#!/usr/bin/env python3
"""Run the repository's pinned test suite (BASELINE.json) and report which
stable-pass tests did not pass.  Used before every fix: commit."""
import json, os, subprocess, sys, tempfile
import xml.etree.ElementTree as ET

b = json.load(open('/root/.vp/BASELINE.json'))
out = tempfile.mkdtemp(prefix='cylc-verif-baseline-')
junit = os.path.join(out, 'run.junit.xml')
cmd = b['cmd'].replace('<file>', junit)
env = dict(os.environ)
env.pop('CYLC_FLOW_VERIF', None)
log = os.path.join(out, 'pytest.log')
with open(log, 'w') as lf:
    subprocess.run(cmd, shell=True, env=env, stdout=lf, stderr=subprocess.STDOUT,
                   stdin=subprocess.DEVNULL, timeout=3 * 3600)
passed, failed = set(), set()
for tc in ET.parse(junit).getroot().iter('testcase'):
    tid = (tc.get('classname') or '') + '::' + (tc.get('name') or '')
    if tc.find('failure') is not None or tc.find('error') is not None:
        failed.add(tid)
    elif tc.find('skipped') is None:
        passed.add(tid)
passed -= failed
missing = sorted(set(b['stable_pass']) - passed)
print('passed', len(passed), 'failed', len(failed), 'stable_pass missing',
      len(missing))
for m in missing[:40]:
    print('  NOT PASSING:', m, '(failed)' if m in failed else '(absent)')
print(open(log).read()[-600:])
import shutil; shutil.rmtree(out, ignore_errors=True)
sys.exit(1 if missing else 0)

#!/usr/bin/env python3
"""Run the repository's pinned test suite (BASELINE.json) and report which
stable-pass tests did not pass.

    run_baseline.py                 # /repo itself, as pinned (serial)
    run_baseline.py --dir WT -n 8   # a scratch worktree, with xdist

Used before every fix: commit and to confirm that a seeded change still passes
the existing suite."""
import argparse, json, os, shutil, subprocess, sys, tempfile
import xml.etree.ElementTree as ET

ap = argparse.ArgumentParser()
ap.add_argument('--dir', default='/repo')
ap.add_argument('-n', type=int, default=0)
ap.add_argument('--no-tui', action='store_true',
                help='skip tests/integration/tui (timing-sensitive here)')
a = ap.parse_args()
b = json.load(open('/root/.vp/BASELINE.json'))
out = tempfile.mkdtemp(prefix='cylc-verif-baseline-')
junit = os.path.join(out, 'run.junit.xml')
cmd = b['cmd'].replace('<file>', junit).replace('cd /repo', f'cd {a.dir}')
if a.n:
    cmd += f' -n {a.n}'
if a.no_tui:
    cmd += ' --ignore=tests/integration/tui'
    b['stable_pass'] = [t for t in b['stable_pass']
                        if not t.startswith('tests.integration.tui.')]
env = dict(os.environ)
env.pop('CYLC_FLOW_VERIF', None)
if a.dir != '/repo':
    env['PYTHONPATH'] = a.dir
log = os.path.join(out, 'pytest.log')
def run(cmd, junit, log):
    with open(log, 'w') as lf:
        subprocess.run(cmd, shell=True, env=env, stdout=lf,
                       stderr=subprocess.STDOUT, stdin=subprocess.DEVNULL,
                       timeout=3 * 3600)
    passed, failed = set(), set()
    for tc in ET.parse(junit).getroot().iter('testcase'):
        tid = (tc.get('classname') or '') + '::' + (tc.get('name') or '')
        if tc.find('failure') is not None or tc.find('error') is not None:
            failed.add(tid)
        elif tc.find('skipped') is None:
            passed.add(tid)
    return passed - failed, failed


passed, failed = run(cmd, junit, log)
missing = sorted(set(b['stable_pass']) - passed)
if missing and a.n:
    # timing-sensitive tests can fail under xdist load: re-run the files of
    # the missing tests serially and merge
    files = set()
    for m in missing:
        parts = m.split('::')[0].split('.')
        while parts and not os.path.exists(
                os.path.join(a.dir, *parts) + '.py'):
            parts.pop()
        if parts:
            files.add(os.path.join(*parts) + '.py')
    if files:
        junit2 = os.path.join(out, 'rerun.junit.xml')
        cmd2 = b['cmd'].replace('<file>', junit2).replace(
            'cd /repo', f'cd {a.dir}') + ' ' + ' '.join(sorted(files))
        p2, f2 = run(cmd2, junit2, os.path.join(out, 'rerun.log'))
        print('re-ran serially:', sorted(files), 'passed', len(p2),
              'failed', len(f2))
        passed |= p2
        failed = (failed - p2) | f2
missing = sorted(set(b['stable_pass']) - passed)
print('passed', len(passed), 'failed', len(failed), 'stable_pass missing',
      len(missing))
for m in missing[:40]:
    print('  NOT PASSING:', m, '(failed)' if m in failed else '(absent)')
print(open(log).read()[-600:])
shutil.rmtree(out, ignore_errors=True)
sys.exit(1 if missing else 0)

#!/bin/sh
# usage: tools/verify_seed.sh <worktree> <PID> <seed-name>
# Confirms a seeded change independently: the demo fails with the change and
# passes without it, and the pinned suite still passes with it (xdist).
# Then stores patch.diff + demo under /verif/seeded/<seed-name>/.
wt=$1; pid=$2; name=$3
d=/verif/seeded/$name; mkdir -p $d
git -C $wt diff > $d/patch.diff
cp $wt/demo_$pid.py $d/ || exit 2
cd $wt || exit 2
run_demo() { if grep -q "def test_" demo_$pid.py && ! grep -q "__main__" demo_$pid.py; then PYTHONPATH=$wt timeout 600 /venv/bin/python -m pytest -q -p no:cacheprovider demo_$pid.py >/tmp/demo_$name.$1.log 2>&1; else PYTHONPATH=$wt timeout 600 /venv/bin/python demo_$pid.py >/tmp/demo_$name.$1.log 2>&1; fi; echo $?; }
with=$(run_demo with)
git apply -R $d/patch.diff || exit 2
without=$(run_demo without)
git apply $d/patch.diff || exit 2
echo "demo with change: rc=$with   without change: rc=$without"
/venv/bin/python /verif/tools/run_baseline.py --dir $wt -n ${NJ:-6} > /tmp/suite_$name.log 2>&1
echo "suite rc=$?"; head -12 /tmp/suite_$name.log

#!/usr/bin/env python3
"""Regenerate MANIFEST.json from props/*.py META and tools/not_applicable.json."""
import ast
import json
import os
import re

V = os.path.dirname(os.path.dirname(os.path.abspath(__file__)))


def meta_of(path):
    """Read the META dict literal of a property module without importing it."""
    tree = ast.parse(open(path).read())
    for node in tree.body:
        if isinstance(node, ast.Assign) and any(
                isinstance(t, ast.Name) and t.id == 'META'
                for t in node.targets):
            v = node.value
            if isinstance(v, ast.Call):
                return {k.arg: ast.literal_eval(k.value) for k in v.keywords}
            return ast.literal_eval(v)
    return None


def main():
    ids = [json.loads(l)['id'] for l in open(os.path.join(V, 'properties.jsonl'))]
    na = json.load(open(os.path.join(V, 'tools', 'not_applicable.json')))
    checks, napp, served = [], [], []
    for pid in ids:
        path = os.path.join(V, 'props', pid + '.py')
        meta = meta_of(path) if os.path.exists(path) else None
        if meta and meta.get('claimed', True):
            served.append(pid)
            checks.append({
                'property_id': pid,
                'quick_cmd': f'./check {pid} --tier quick',
                'thorough_cmd': f'./check {pid} --tier thorough',
                'evidence_file': f'/verif/evidence/{pid}.json',
                'replay_cmd_template': './check --replay {path}',
                'engine': 'chx-smtx',
                'level_claimed': {
                    'category': meta.get('level', 'model_checking'),
                    'text': meta['text'],
                    'design_ref': f'DESIGN.md §8.2 row {pid} (as built); §4 {pid} (plan)',
                },
                'level_note': meta['note'],
                'technique': meta.get(
                    'technique',
                    'bounded symbolic execution of the real functions '
                    '(CrossHair + z3), per-path SMT verdicts, replayed '
                    'counterexamples'),
            })
        else:
            napp.append({'property_id': pid, 'reason': na.get(
                pid, 'check not built yet (see DESIGN.md §4); nothing is '
                     'claimed for this property')})
    man = {
        'version': 1,
        'setup_cmd': 'sh /verif/setup.sh',
        'hooks': {
            'guard': 'CYLC_FLOW_VERIF',
            'enable': 'none needed: harnesses construct the real objects '
                      'themselves and observe them directly; the variable is '
                      'exported by ./check but no source in /repo reads it',
            'baseline_off_cmd': 'cd /repo && /venv/bin/python -m pytest -ra '
                                '-q -p no:cacheprovider --timeout=900 '
                                '--continue-on-collection-errors',
            'source_commits': [],
            'add_only': True,
        },
        'engines': [{
            'name': 'chx-smtx',
            'path': '/verif/vf',
            'serves_properties': served,
            'kind_free_text': 'solver-based checking of the real code: '
            'CrossHair 0.0.110 used as a library (symbolic execution of the '
            'real cylc-flow functions, z3 decides every branch and the final '
            'assertion) plus direct z3 queries generated from artefacts of '
            'the real code (compiled regexes, completion/trigger expressions)',
        }],
        'checks': checks,
        'not_applicable': napp,
        'notes': 'All verdicts are bounded (bounds in evidence.coverage.bounds'
                 '); INCONCLUSIVE obligations are listed, never counted as '
                 'held. Exit 3 = harness error.',
    }
    with open(os.path.join(V, 'MANIFEST.json'), 'w') as f:
        json.dump(man, f, indent=1)
    print('claimed', len(checks), 'not_applicable', len(napp))


if __name__ == '__main__':
    main()

#!/usr/bin/env python3
"""Print the prompt for a seeding sub-agent: property text + worktree path."""
import json, sys
pid, wt = sys.argv[1], sys.argv[2]
extra = (' ' + sys.argv[3]) if len(sys.argv) > 3 else ''
p = [json.loads(l) for l in open('/verif/properties.jsonl') if json.loads(l)['id'] == pid][0]
print(f"""You are helping test a verification tool by seeding a realistic defect into a copy of the open-source project cylc-flow (a Python workflow scheduler).

Your scratch git worktree is {wt} (a worktree of the repository; work ONLY there; never touch /repo or /verif; do not read anything under /verif). Python interpreter with all dependencies: /venv/bin/python. To make Python import your modified copy rather than the installed one, run things with  cd {wt} && PYTHONPATH={wt} /venv/bin/python ...  (check with `python -c "import cylc.flow; print(cylc.flow.__file__)"` that it resolves inside {wt}). Tests: cd {wt} && PYTHONPATH={wt} /venv/bin/python -m pytest -q -p no:cacheprovider -x <paths>  (the full suite takes ~15 minutes with xdist; at minimum run tests/unit and the integration tests related to the files you touch, e.g. tests/integration/test_task_pool.py; some tests such as tests/integration/tui/*, test_scan_api, test_host_select are flaky/offline-failing even without changes - ignore failures that also happen on the unmodified tree).

The semantic property to break:

  id: {p['id']}
  title: {p['title']}
  statement: {p['statement']}
  quantified over: {p['quantifier']['text']}
  relevant source files: {', '.join(p['anchors']['files'])}

Task: make ONE small, realistic change (the kind of bug a maintainer could plausibly introduce in a refactor or "optimisation": an off-by-one, a wrong comparison operator, a dropped condition, a wrong variable, a stale cache, a reordered statement, two sites that each look fine alone...) to the cylc-flow source under {wt}/cylc/flow so that the property above is violated, while the code still imports and the EXISTING test suite still passes. Prefer a change that needs something specific to manifest (a particular input value or combination, a particular order of events, a multi-step sequence of operations, an unusual configuration) rather than one that ordinary use would expose at once. Do not edit tests. Do not add new files to the package.

Deliver, inside {wt}:
  1. the change itself, left UNCOMMITTED in the worktree (so that `git -C {wt} diff` shows exactly your change);
  2. a demonstration file {wt}/demo_{p['id']}.py: a small standalone Python program (or pytest file) that exits non-zero / fails WITH your change and exits 0 / passes WITHOUT it (i.e. on the unmodified code); it should exercise the real cylc-flow code (unit-level use of the real classes is fine; no network);
  3. verify both directions yourself (NEVER use `git stash`: the stash is shared with other worktrees and other workers use it concurrently; instead save your change with `git diff > /tmp/{p['id']}_change.patch`, un-apply it with `git apply -R /tmp/{p['id']}_change.patch` and re-apply it with `git apply /tmp/{p['id']}_change.patch`), and run the relevant existing tests with your change to confirm they still pass.

In your final message report: the diff, what it needs in order to manifest, the exact commands you ran (tests + demo with and without the change) and their outcomes. Keep the change minimal (a few lines). BUSY MACHINE: other jobs are running - never use more than `-n 3` with pytest, and prefer running only the test files related to what you touch plus tests/unit.{extra}""")

#!/bin/sh
# usage: tools/try_seed_wt.sh <seed-dir> <PID> [check args...]
# Like try_seed.sh but leaves /repo alone: the seeded patch is applied to a
# scratch worktree and the check runs against it (VERIF_REPO); the worktree is
# removed afterwards.
d=$(realpath $1); p=$2; shift 2
wt=/tmp/wts_$(basename $d)_$$
git -C /repo worktree add -q --detach $wt HEAD || exit 2
git -C $wt apply $d/patch.diff || { git -C /repo worktree remove --force $wt; exit 2; }
VERIF_REPO=$wt ./check "$p" "$@" --no-evidence > "/tmp/seed_$(basename $d).log" 2>&1
rc=$?
git -C /repo worktree remove --force $wt
echo "seed=$(basename $d) check=$p exit=$rc"
grep -E "^VIOLATION|^SUMMARY|HARNESS-ERROR" "/tmp/seed_$(basename $d).log" | head -8

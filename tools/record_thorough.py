#!/usr/bin/env python3
"""Record the thorough-tier runs (one line per check from a sweep log) in
/verif/thorough_runs.json: wall time, obligations, inconclusive ones."""
import json, re, subprocess, sys
src = sys.argv[1]
note = sys.argv[2] if len(sys.argv) > 2 else ''
out = '/verif/thorough_runs.json'
try:
    runs = json.load(open(out))
except Exception:
    runs = {'_comment': 'thorough-tier runs, end to end, on this sandbox '
            '(16 cores; the sweep used 10 worker processes while other jobs '
            'were running, so wall times are upper bounds)', 'runs': {}}
head = subprocess.run(['git', '-C', '/repo', 'rev-parse', '--short', 'HEAD'],
                      capture_output=True, text=True).stdout.strip()
for line in open(src):
    m = re.match(r'(C\d+) rc=(\d+) t=(\d+) (.*)', line)
    if not m:
        continue
    pid, rc, t, rest = m.group(1), int(m.group(2)), int(m.group(3)), m.group(4)
    f = dict(re.findall(r'(\w+)=(\S+)', rest))
    runs['runs'][pid] = {
        'exit': rc, 'wall_s': t, 'obligations': int(f.get('obligations', 0)),
        'discharged': int(f.get('discharged', 0)),
        'inconclusive': int(f.get('inconclusive', 0)),
        'paths': int(f.get('paths', 0)), 'violations': int(f.get('violations', 0)),
        'repo': head, 'note': note}
json.dump(runs, open(out, 'w'), indent=1)
print(len(runs['runs']))

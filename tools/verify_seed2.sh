#!/bin/sh
# usage: tools/verify_seed2.sh <seed-name> <PID>   (seed already stored under /verif/seeded/<name>)
# Re-creates a scratch worktree, applies the patch, runs the demo both ways and
# the pinned suite (xdist, tui tests skipped: timing-sensitive in this sandbox),
# removes the worktree.
name=$1; pid=$2; d=/verif/seeded/$name; wt=/tmp/wtv_$name
git -C /repo worktree add -q --detach $wt HEAD || exit 2
cd $wt && git apply $d/patch.diff || { echo "patch does not apply"; git -C /repo worktree remove --force $wt; exit 2; }
cp $d/demo_$pid.py $wt/
run_demo() { if grep -q "def test_" demo_$pid.py && ! grep -q "__main__" demo_$pid.py; then PYTHONPATH=$wt timeout 900 /venv/bin/python -m pytest -q -p no:cacheprovider demo_$pid.py >/tmp/demo_$name.$1.log 2>&1; else PYTHONPATH=$wt timeout 900 /venv/bin/python demo_$pid.py >/tmp/demo_$name.$1.log 2>&1; fi; echo $?; }
with=$(run_demo with)
git apply -R $d/patch.diff
without=$(run_demo without)
git apply $d/patch.diff
echo "seed=$name demo with change: rc=$with   without change: rc=$without"
nice -n 5 /venv/bin/python /verif/tools/run_baseline.py --dir $wt -n ${NJ:-5} --no-tui > /tmp/suite_$name.log 2>&1
echo "seed=$name suite rc=$?"; head -8 /tmp/suite_$name.log
cd /; git -C /repo worktree remove --force $wt

#!/bin/sh
# usage: tools/try_seed.sh <seed-dir> <PID> [check args...]  - apply the seeded
# patch to /repo, run the check, always revert.
d=$1; p=$2; shift 2
git -C /repo apply "$(realpath $d)/patch.diff" || exit 2
./check "$p" "$@" --no-evidence > "/tmp/seed_$(basename $d).log" 2>&1
rc=$?
git -C /repo checkout -- .
echo "seed=$(basename $d) check=$p exit=$rc"
grep -E "^VIOLATION|^SUMMARY|HARNESS-ERROR" "/tmp/seed_$(basename $d).log" | head -8
